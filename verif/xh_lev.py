"""CrossHair second engine for C02's string kernel: the real levenshtein_distance against a textbook reference.
Run by C02 as:  crosshair check --report_all --per_condition_timeout <s> verif/xh_lev.py"""
from graphtage.levenshtein import levenshtein_distance


def _reference(s: str, t: str) -> int:
    n, m = len(s), len(t)
    prev = list(range(m + 1))
    for i in range(1, n + 1):
        cur = [i] + [0] * m
        for j in range(1, m + 1):
            cur[j] = min(prev[j] + 1, cur[j - 1] + 1, prev[j - 1] + (0 if s[i - 1] == t[j - 1] else 1))
        prev = cur
    return prev[m]


def _kernel_agrees(s: str, t: str) -> bool:
    """
    pre: len(s) <= 2 and len(t) <= 2
    post: _ == True
    """
    d = levenshtein_distance(s, t)
    return d == _reference(s, t) and ((d == 0) == (s == t))


def _kernel_agrees_3(s: str, t: str) -> bool:
    """
    pre: len(s) <= 3 and len(t) <= 3
    post: _ == True
    """
    d = levenshtein_distance(s, t)
    return d == _reference(s, t) and ((d == 0) == (s == t))
