"""Environment stubs and builtins shims, installed in module namespaces through common.PATCHES (no /repo edits).

Each stub is part of the claim and has a conformance check in conformance.py.
"""
import builtins
import itertools

import z3

from .symx.core import (Engine, SInt, SBool, Unsupported, Infeasible, shim_isinstance, shim_int, shim_type, B,
                        sym_and, _wrapb, to_z3_int)
from .common import PATCHES


# ---------------------------------------------------------------- quiet / null progress printer
class _NullBar:
    total = 0
    desc = ''

    def __enter__(self):
        return self

    def __exit__(self, *a):
        return False

    def update(self, *a, **k):
        pass

    def refresh(self):
        pass


class StubPrinter:
    """Stands in for graphtage.printer.DEFAULT_PRINTER inside levenshtein/tree/json: only .quiet and .tqdm are used
    there.  `quiet` is kept because it changes control flow in EditDistance.tighten_bounds."""

    def __init__(self, quiet=True):
        self.quiet = quiet

    def tqdm(self, *a, **k):
        if a and not builtins.isinstance(a[0], (int, float)):
            return a[0]
        return _NullBar()


# ---------------------------------------------------------------- numpy matrix stub (graphtage.levenshtein.np)
class _Arr:
    def __init__(self, shape, fill):
        self.rows = [[fill] * shape[1] for _ in range(shape[0])]

    def __getitem__(self, i):
        return self.rows[i]


class NPStub:
    uint16 = 'uint16'
    uint64 = 'uint64'

    @staticmethod
    def full(shape, fill, dtype=None):
        return _Arr(shape, fill)


# ---------------------------------------------------------------- interval tree stub (graphtage.bounds)
class SInterval:
    __slots__ = ('begin', 'end', 'data')

    def __init__(self, begin, end, data=None):
        self.begin = begin
        self.end = end
        self.data = data


class ListIntervalTree:
    """List-backed model of intervaltree.IntervalTree for the operations make_distinct uses.  The real tree is a set of
    Interval(begin, end, data) triples: adding an equal triple is a no-op."""

    def __init__(self):
        self.items = []

    def add(self, iv):
        if B(iv.begin >= iv.end):
            raise ValueError("IntervalTree: Null Interval objects not allowed in IntervalTree")
        for x in self.items:
            if x.data is iv.data and B(x.begin == iv.begin) and B(x.end == iv.end):
                return
        self.items.append(iv)

    def remove(self, iv):
        for k, x in enumerate(self.items):
            if x is iv or (x.data is iv.data and B(x.begin == iv.begin) and B(x.end == iv.end)):
                del self.items[k]
                return
        raise ValueError("interval not in tree")

    def __len__(self):
        return len(self.items)

    @staticmethod
    def _ordered(items):
        """The real tree is a hash-ordered set.  make_distinct only depends on which *maximal-size* interval comes first
        (it scans with a strict `>`), so the stub puts an engine-chosen maximal interval first whenever the path has a tie
        among intervals that are not single points (a single point is definitive by construction and ends the scan)."""
        items = list(items)
        if len(items) <= 1:
            return items
        sizes = [x.end - x.begin for x in items]
        best = [0]
        for i in range(1, len(items)):
            if B(sizes[i] > sizes[best[0]]):
                best = [i]
            elif B(sizes[i] == sizes[best[0]]):
                best.append(i)
        first = best[0]
        if len(best) > 1 and not (builtins.isinstance(sizes[first], int) and sizes[first] == 1):
            first = best[Engine.cur.choose(len(best))]
        return [items[first]] + [x for i, x in enumerate(items) if i != first]

    def __iter__(self):
        return iter(self._ordered(self.items))

    def __getitem__(self, sl):
        return self._ordered([x for x in self.items if B(x.begin < sl.stop) and B(x.end > sl.start)])

    def overlaps(self, b, e=None):
        if e is None:
            return any(B(x.begin <= b) and B(x.end > b) for x in self.items)
        return any(B(x.begin < e) and B(x.end > b) for x in self.items)

    # further intervaltree.IntervalTree API a refactoring might switch to
    def overlap(self, b, e=None):
        if e is None and hasattr(b, 'begin'):
            b, e = b.begin, b.end
        return set_like(self._ordered([x for x in self.items if B(x.begin < e) and B(x.end > b)]))

    def at(self, p):
        return set_like(self._ordered([x for x in self.items if B(x.begin <= p) and B(x.end > p)]))

    def envelop(self, b, e=None):
        if e is None and hasattr(b, 'begin'):
            b, e = b.begin, b.end
        return set_like(self._ordered([x for x in self.items if B(x.begin >= b) and B(x.end <= e)]))

    def addi(self, begin, end, data=None):
        return self.add(SInterval(begin, end, data))

    def removei(self, begin, end, data=None):
        return self.remove(SInterval(begin, end, data))

    def discard(self, iv):
        try:
            self.remove(iv)
        except ValueError:
            pass

    def discardi(self, begin, end, data=None):
        return self.discard(SInterval(begin, end, data))

    def __contains__(self, iv):
        return any(x.data is iv.data and B(x.begin == iv.begin) and B(x.end == iv.end) for x in self.items)

    def is_empty(self):
        return not self.items

    def clear(self):
        self.items = []


class set_like(list):
    """result of a tree query: list with the bit of the set API callers use"""

    def __sub__(self, o):
        return set_like(x for x in self if all(x is not y for y in o))


# ---------------------------------------------------------------- assignment contract stubs
def _assignments(n, m):
    """All maximum-cardinality one-to-one assignments between range(n) and range(m) as lists of (i, j)."""
    if n <= m:
        return [list(zip(range(n), cols)) for cols in itertools.permutations(range(m), n)]
    return [sorted(zip(rows, range(m))) for rows in itertools.permutations(range(n), m)]


LSA_MEMO = None     # when a dict: memoise the chosen assignment per matrix (scipy is a function of its input)


def lsa_contract(matrix, maximize=False):
    """Contract stub for scipy.optimize.linear_sum_assignment on a dense list-of-lists matrix: returns *any* assignment
    of the smaller side minimising the total (engine choice over all of them, assumed optimal)."""
    eng = Engine.cur
    rows = [list(r) for r in matrix]
    n = len(rows)
    m = len(rows[0]) if n else 0
    if n == 0 or m == 0:
        return [], []
    cands = _assignments(n, m)

    def cost(c):
        t = 0
        for i, j in c:
            t = t + rows[i][j]
        return t
    pick = cands[eng.choose(len(cands))]
    pc = cost(pick)
    for c in cands:
        if c is not pick:
            r = (pc <= cost(c)) if not maximize else (pc >= cost(c))
            eng.assume(r if builtins.isinstance(r, SBool) else bool(r))
    pick = sorted(pick)
    return [i for i, _ in pick], [j for _, j in pick]


def mwbm_contract(from_nodes, to_nodes, get_edges):
    """Contract stub for graphtage.matching.min_weight_bipartite_matching on *complete* tables (what tree edits
    build): any valid, maximum-cardinality, minimum-total assignment.  C15 decides this contract on the real function."""
    n, m = len(from_nodes), len(to_nodes)
    if n == 0 or m == 0:
        return {}
    w = [[get_edges(f, t) for t in to_nodes] for f in from_nodes]
    for row in w:
        for x in row:
            if x is None:
                raise Unsupported("mwbm_contract: sparse table")
    key = None
    if LSA_MEMO is not None:
        key = tuple(tuple(to_z3_int(x).get_id() if builtins.isinstance(x, SInt) else ('c', x) for x in row) for row in w)
        if key in LSA_MEMO:
            pick = LSA_MEMO[key][0]
            return {i: (j, w[i][j]) for i, j in pick}
    ri, ci = lsa_contract(w)
    pick = list(zip(ri, ci))
    if key is not None:
        LSA_MEMO[key] = (pick, w)      # w pins the z3 terms: AST ids are only unique among live terms
    return {i: (j, w[i][j]) for i, j in pick}


# ---------------------------------------------------------------- installation
def install_core(quiet=True, lsa='mwbm'):
    """Stubs/shims needed to run tree edits symbolically."""
    import graphtage.levenshtein as lev
    import graphtage.tree as gtree
    import graphtage.bounds as gb
    import graphtage.matching as gm
    import graphtage.search as gs
    import graphtage.edits as ge
    import graphtage.graphtage as gg
    import graphtage.json as gj
    import graphtage.sequences as gseq
    import graphtage.multiset as gms
    pr = StubPrinter(quiet)
    PATCHES.set(lev, 'DEFAULT_PRINTER', pr)
    PATCHES.set(gtree, 'DEFAULT_PRINTER', pr)
    PATCHES.set(gj, 'DEFAULT_PRINTER', pr)
    PATCHES.set(lev, 'np', NPStub)
    PATCHES.set(lev, 'int', shim_int)
    for m in (gb, gm, gs, ge, gg, gseq, gms, lev):
        PATCHES.set(m, 'isinstance', shim_isinstance)
    PATCHES.set(gm, 'type', shim_type)
    PATCHES.set(gb, 'IntervalTree', ListIntervalTree)
    PATCHES.set(gb, 'Interval', SInterval)
    if lsa == 'mwbm':
        PATCHES.set(gm, 'min_weight_bipartite_matching', mwbm_contract)
    PATCHES.install()
    return pr
