"""Shared plumbing: patch registry, job pool, evidence, known findings, exit protocol."""
import contextlib
import hashlib
import json
import multiprocessing as mp
import os
import signal
import sys
import time
import traceback

ROOT = os.path.dirname(os.path.dirname(os.path.abspath(__file__)))
REPO = os.environ.get("VERIF_REPO", "/repo")
EVIDENCE_DIR = os.path.join(ROOT, "evidence")
REPLAY_DIR = os.path.join(ROOT, "replays")
KNOWN = os.path.join(ROOT, "known_findings.json")

EXIT_OK, EXIT_VIOLATION, EXIT_INCONCLUSIVE = 0, 1, 2


# ------------------------------------------------------------------ patch registry
class Patches:
    """Module-namespace monkeypatches (stubs and shims).  ``pristine()`` temporarily restores the real code
    so that a counterexample can be replayed in-process with no stub, shim or monitor in force."""

    def __init__(self):
        self.items = []     # (obj, attr, had, original, replacement)
        self.active = False

    def set(self, obj, attr, value):
        had = attr in vars(obj) if hasattr(obj, '__dict__') else hasattr(obj, attr)
        orig = vars(obj).get(attr) if had else None
        self.items.append((obj, attr, had, orig, value))
        if self.active:
            setattr(obj, attr, value)

    def install(self):
        for obj, attr, had, orig, value in self.items:
            setattr(obj, attr, value)
        self.active = True

    def uninstall(self):
        for obj, attr, had, orig, value in reversed(self.items):
            if had:
                setattr(obj, attr, orig)
            else:
                try:
                    delattr(obj, attr)
                except AttributeError:
                    pass
        self.active = False

    @contextlib.contextmanager
    def pristine(self):
        was = self.active
        if was:
            self.uninstall()
        try:
            yield
        finally:
            if was:
                self.install()

    def describe(self):
        out = []
        for obj, attr, had, orig, value in self.items:
            name = getattr(obj, '__name__', repr(obj))
            out.append(f"{name}.{attr}")
        return sorted(set(out))


PATCHES = Patches()


class Timeout(BaseException):
    pass


@contextlib.contextmanager
def wall_limit(seconds):
    def handler(signum, frame):
        raise Timeout()
    old = signal.signal(signal.SIGALRM, handler)
    signal.setitimer(signal.ITIMER_REAL, seconds)
    try:
        yield
    finally:
        signal.setitimer(signal.ITIMER_REAL, 0)
        signal.signal(signal.SIGALRM, old)


# ------------------------------------------------------------------ anchors
class Anchors:
    def __init__(self):
        self.hits = {}

    def wrap(self, patches, owner, attr, label=None):
        label = label or f"{getattr(owner, '__name__', owner)}.{attr}"
        orig = vars(owner)[attr] if attr in vars(owner) else getattr(owner, attr)
        self.hits.setdefault(label, 0)
        hits = self.hits
        if isinstance(orig, property):
            raise ValueError("wrap the getter explicitly")
        import functools

        @functools.wraps(orig)
        def w(*a, **k):
            hits[label] += 1
            return orig(*a, **k)
        patches.set(owner, attr, w)
        return label

    def snapshot(self):
        return dict(self.hits)


# ------------------------------------------------------------------ job pool
def _worker(args):
    modname, job = args
    import importlib
    t0 = time.time()
    try:
        mod = importlib.import_module(modname)
        res = mod.run_job(job)
        res.setdefault('job', job)
        res['wall'] = round(time.time() - t0, 3)
        return res
    except BaseException as ex:  # noqa
        return {'job': job, 'error': f"{type(ex).__name__}: {ex}", 'trace': traceback.format_exc()[-3000:],
                'wall': round(time.time() - t0, 3)}


def _child(conn, modname, job):
    try:
        import faulthandler
        faulthandler.register(signal.SIGUSR1, all_threads=True)
    except Exception:   # noqa
        pass
    try:
        res = _worker((modname, job))
    except BaseException as ex:   # noqa
        res = {'job': job, 'error': f"{type(ex).__name__}: {ex}"}
    try:
        conn.send(res)
    except Exception as ex:   # noqa
        try:
            conn.send({'job': job, 'error': f"result not picklable: {ex}"})
        except Exception:   # noqa
            pass
    conn.close()


def run_jobs(modname, jobs, procs=None, deadline=None, job_cap_s=None):
    """One forked process per job, at most `procs` at a time.  A worker that dies or exceeds its cap yields an
    error result (=> inconclusive), never a hang and never a pass."""
    from multiprocessing.connection import wait
    procs = procs or min(16, os.cpu_count() or 1)
    ctx = mp.get_context("fork")
    jobs = [dict(j, _stop_depth=j['split_depth']) if j.get('split_depth') else j for j in jobs]
    pending = sorted(jobs, key=lambda j: j.get('weight', 0))      # heaviest first (popped from the end)
    active = {}
    out = []
    while pending or active:
        while pending and len(active) < procs:
            job = pending.pop()
            r, w = ctx.Pipe(duplex=False)
            p = ctx.Process(target=_child, args=(w, modname, job), daemon=True)
            p.start()
            w.close()
            active[r] = (p, job, time.time())
        ready = wait(list(active), timeout=1.0)
        for r in ready:
            p, job, t0 = active.pop(r)
            try:
                res = r.recv()
            except (EOFError, OSError):
                p.join(1)
                res = {'job': job, 'error': f"worker died (exit code {p.exitcode})"}
            r.close()
            p.join(5)
            out.append(res)
            # prefix splitting: a job run with _stop_depth returns the decision prefixes of its frontier; each becomes a
            # sub-job exploring only that sub-tree
            fr = res.get('frontier') if isinstance(res, dict) else None
            if fr and job.get('_stop_depth') is not None:
                for pre in fr:
                    sub = dict(job)
                    sub['_prefix'] = list(pre)
                    sub['_stop_depth'] = None
                    sub.pop('split_depth', None)
                    pending.append(sub)
                res['frontier'] = len(fr)
        now = time.time()
        for r, (p, job, t0) in list(active.items()):
            cap = job.get('cap_s') or job_cap_s
            if (cap and now - t0 > cap) or (deadline is not None and now > deadline):
                p.terminate()
                p.join(2)
                if p.is_alive():
                    p.kill()
                active.pop(r)
                r.close()
                out.append({'job': job, 'error': 'job exceeded its wall cap (inconclusive)', 'deadline': True})
        if deadline is not None and time.time() > deadline and pending:
            for job in pending:
                out.append({'job': job, 'error': 'not started before deadline (inconclusive)', 'deadline': True})
            pending = []
    return out


# ------------------------------------------------------------------ known findings
def load_known(prop):
    if not os.path.exists(KNOWN):
        return []
    with open(KNOWN) as f:
        data = json.load(f)
    return [k for k in data.get('findings', []) if k.get('property') == prop and k.get('status', 'open') == 'open']


def load_fixed(prop):
    if not os.path.exists(KNOWN):
        return []
    with open(KNOWN) as f:
        data = json.load(f)
    return [k for k in data.get('fixed', []) if prop in k.get('properties', [k.get('property')])]


# ------------------------------------------------------------------ evidence / reporting
def write_replay(prop, payload):
    os.makedirs(os.path.join(REPLAY_DIR, prop), exist_ok=True)
    blob = json.dumps(payload, sort_keys=True, indent=1, default=str)
    h = hashlib.sha1(blob.encode()).hexdigest()[:12]
    path = os.path.join(REPLAY_DIR, prop, f"{h}.json")
    with open(path, 'w') as f:
        f.write(blob)
    return path


def write_evidence(prop, tier, seed, coverage, assumptions, wall, violations, level="model_checking"):
    os.makedirs(EVIDENCE_DIR, exist_ok=True)
    ev = {
        "property_id": prop, "tier": tier, "seed": int(seed), "level": level,
        "coverage": coverage, "assumptions": assumptions, "wall_s": round(wall, 2), "violations": int(violations),
    }
    path = os.path.join(EVIDENCE_DIR, f"{prop}.json")
    tmp = path + ".tmp"
    with open(tmp, 'w') as f:
        json.dump(ev, f, indent=1, default=str)
    os.replace(tmp, path)
    return path


def repo_sources(files):
    out = {}
    for rel in files:
        p = os.path.join(REPO, rel)
        try:
            with open(p, 'rb') as f:
                out[rel] = hashlib.sha1(f.read()).hexdigest()[:12]
        except OSError:
            out[rel] = None
    return out


def log(*a):
    print(*a, file=sys.stderr, flush=True)


def split_args(job):
    """explore() keyword arguments implementing prefix splitting for a job"""
    pre = list(job.get('_prefix') or [])
    return dict(prefix=pre, fixed=len(pre), stop_depth=job.get('_stop_depth'))
