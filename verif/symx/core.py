"""symx: z3-proxy symbolic execution of real Python code (DFS by re-execution).

Symbolic values are proxy objects wrapping z3 terms.  ``SBool.__bool__`` asks the engine, which keeps the
path condition in an incremental z3 solver.  At a new decision the engine evaluates the condition under the
current model (free direction) and issues one ``check()`` for the other direction; both feasible => choice
point.  Exploration re-runs the harness from scratch with the recorded decision prefix, last open choice
flipped.  The run *exhausts* when no open choice point is left.

Nothing here silently concretises: proxies are not subclasses of int/str, and ``__index__``/``__int__``/
``__hash__`` of a symbolic integer raise ``Unsupported`` (=> inconclusive, never success).
"""
import builtins
import signal
import time

import z3


class Unsupported(Exception):
    """An operation the encoding does not cover: the run is inconclusive (exit 2), never a pass."""


class Infeasible(BaseException):
    """Current path condition is unsatisfiable (or an assumption failed)."""


class PathAbort(BaseException):
    """Per-path watchdog: non-termination candidate."""

    def __init__(self, why="watchdog"):
        super().__init__(why)
        self.why = why


class Frontier(BaseException):
    """Raised when a path reaches the split depth in frontier-enumeration mode."""


def _fold(e):
    e = z3.simplify(e)
    if z3.is_int_value(e):
        return e.as_long()
    if z3.is_true(e):
        return True
    if z3.is_false(e):
        return False
    return e


SOLVER_TIMEOUT_MS = 20000


class Engine:
    cur = None

    def __init__(self, prefix=(), fixed=0, stop_depth=None):
        """prefix: list of decisions (bool for branches, int for choices) to replay.
        fixed: number of leading prefix entries that must not be flipped (sub-tree exploration)."""
        self.solver = z3.Solver()
        self.solver.set("timeout", SOLVER_TIMEOUT_MS)
        self.prefix = list(prefix)
        self.fixed = fixed
        self.stop_depth = stop_depth
        self.trail = []          # entries: [value, n_alternatives_left, kind]
        self.pos = 0
        self.queries = 0
        self.solver_time = 0.0
        self.model = None
        self.nvars = 0
        self.vars = []           # z3 constants created on this path, in creation order
        self.names = {}
        self.cache = {}          # z3 ast id -> decision already taken on this path
        self.notes = {}
        self.ticks = 0           # watchdog counter
        self.abort_requested = False
        self.pc = []             # path condition (branch constraints and assumptions), in order
        self.tick_cap = None

    # ---- variables
    def fresh_int(self, name=None, lo=None, hi=None):
        name = name or f"v{self.nvars}"
        if name in self.names:
            raise Unsupported(f"duplicate variable {name}")
        v = z3.Int(name)
        self.nvars += 1
        self.vars.append(v)
        self.names[name] = v
        if lo is not None:
            self.solver.add(v >= lo)
            self.pc.append(v >= lo)
        if hi is not None:
            self.solver.add(v <= hi)
            self.pc.append(v <= hi)
        if lo is not None or hi is not None:
            self.model = None        # a model obtained earlier does not know this variable's range
        return SInt(v)

    def fresh_bool(self, name=None):
        name = name or f"b{self.nvars}"
        v = z3.Bool(name)
        self.nvars += 1
        self.vars.append(v)
        self.names[name] = v
        return SBool(v)

    # ---- constraints
    def assume(self, c):
        if isinstance(c, SBool):
            c = c.e
        if c is True:
            return
        if c is False:
            raise Infeasible()
        self.solver.add(c)
        self.pc.append(c)
        if self.model is not None:
            if not z3.is_true(self.model.eval(c, model_completion=True)):
                self.model = None

    def _check(self, *assumptions):
        self.queries += 1
        t = time.perf_counter()
        r = self.solver.check(*assumptions)
        self.solver_time += time.perf_counter() - t
        return r

    def ensure_model(self):
        if self.model is None:
            r = self._check()
            if r == z3.unsat:
                raise Infeasible()
            if r != z3.sat:
                raise Unsupported("solver returned unknown")
            self.model = self.solver.model()
        return self.model

    def tick(self, n=1):
        if self.abort_requested:
            raise PathAbort("wall")
        self.ticks += n
        if self.tick_cap is not None and self.ticks > self.tick_cap:
            raise PathAbort("watchdog")

    # ---- decisions
    def _depth_guard(self):
        if self.stop_depth is not None and self.pos >= self.stop_depth and self.pos >= len(self.prefix):
            raise Frontier()

    def branch(self, e):
        if self.abort_requested:
            raise PathAbort("wall")
        key = e.get_id()
        hit = self.cache.get(key)
        if hit is not None:
            return hit
        if self.pos < len(self.prefix):
            d = self.prefix[self.pos]
            if not isinstance(d, bool):
                raise Unsupported("replay misalignment: a choice point was recorded where a branch is executed")
            self.trail.append([d, 0, 'b'])      # alternatives of replayed entries were handled by the scheduler
            self.pos += 1
            c = e if d else z3.Not(e)
            self.solver.add(c)
            self.pc.append(c)
            if self.model is not None and not z3.is_true(self.model.eval(c, model_completion=True)):
                self.model = None
            self.cache[key] = d
            return d
        self._depth_guard()
        m = self.ensure_model()
        d = z3.is_true(m.eval(e, model_completion=True))
        other = z3.Not(e) if d else e
        r = self._check(other)
        if r == z3.unknown:
            raise Unsupported("solver returned unknown")
        self.solver.add(e if d else z3.Not(e))   # current model still satisfies it
        self.pc.append(e if d else z3.Not(e))
        self.trail.append([d, 1 if r == z3.sat else 0, 'b'])
        self.pos += 1
        self.cache[key] = d
        return d

    def choose(self, n, tag=None):
        """Nondeterministic choice in range(n): a scheduler decision, no solver involvement."""
        if n <= 1:
            return 0
        if self.pos < len(self.prefix):
            k = self.prefix[self.pos]
            if isinstance(k, bool) or k >= n:
                raise Unsupported("replay misalignment: a branch was recorded where a choice point is executed")
            self.trail.append([k, 0, 'c', n])
            self.pos += 1
            return k
        self._depth_guard()
        self.trail.append([0, n - 1, 'c', n])
        self.pos += 1
        return 0

    # ---- model access
    def value(self, x):
        """Concrete value of a proxy / z3 term under the path's final model."""
        m = self.ensure_model()
        if isinstance(x, (SInt, SBool)):
            x = x.e
        if isinstance(x, (int, bool, str)) or x is None:
            return x
        for attempt in (0, 1):
            v = m.eval(x, model_completion=True)
            if not (z3.is_int_value(v) or z3.is_true(v) or z3.is_false(v)):
                v = z3.simplify(v)
            if z3.is_int_value(v):
                return v.as_long()
            if z3.is_true(v):
                return True
            if z3.is_false(v):
                return False
            if attempt == 0:
                # a model object can be left incomplete when a path was cut by the wall-clock watchdog while the solver was
                # producing it (seen once under load): ask the solver again before giving up
                self.model = None
                m = self.ensure_model()
        raise Unsupported(f"cannot read value of {x}")

    def assignment(self):
        m = self.ensure_model()
        out = {}
        for v in self.vars:
            val = m.eval(v, model_completion=True)
            out[str(v)] = val.as_long() if z3.is_int_value(val) else z3.is_true(val)
        return out


def cur():
    return Engine.cur


class SBool:
    __slots__ = ('e',)

    def __init__(self, e):
        self.e = e

    def __bool__(self):
        return Engine.cur.branch(self.e)

    def __and__(self, o):
        if isinstance(o, SBool):
            return _wrapb(z3.And(self.e, o.e))
        if isinstance(o, bool):
            return self if o else False
        return NotImplemented
    __rand__ = __and__

    def __or__(self, o):
        if isinstance(o, SBool):
            return _wrapb(z3.Or(self.e, o.e))
        if isinstance(o, bool):
            return True if o else self
        return NotImplemented
    __ror__ = __or__

    def __invert__(self):
        return _wrapb(z3.Not(self.e))

    def __eq__(self, o):
        if isinstance(o, SBool):
            return _wrapb(self.e == o.e)
        if isinstance(o, bool):
            return self if o else _wrapb(z3.Not(self.e))
        return NotImplemented

    def __hash__(self):
        raise Unsupported("hash of symbolic bool")

    def __repr__(self):
        return "SBool(..)"
    __str__ = __repr__

    def __format__(self, spec):
        return "SBool(..)"


def _e(x):
    return x.e if isinstance(x, SInt) else x


def _wrapi(e):
    e = _fold(e)
    return e if isinstance(e, int) else SInt(e)


def _wrapb(e):
    e = _fold(e)
    return e if isinstance(e, bool) else SBool(e)


def _ok(o):
    return isinstance(o, (int, SInt)) and not isinstance(o, bool)


def _cmp(op):
    def f(self, o):
        if not _ok(o):
            return NotImplemented
        return _wrapb(op(self.e, _e(o)))
    return f


def _bin(op, rev=False):
    def f(self, o):
        if not _ok(o):
            if isinstance(o, bool):
                o = int(o)
            else:
                return NotImplemented
        return _wrapi(op(_e(o), self.e) if rev else op(self.e, _e(o)))
    return f


class SInt:
    """Symbolic mathematical integer (Python int semantics, z3 Int)."""
    __slots__ = ('e',)

    def __init__(self, e):
        self.e = e
    __add__ = _bin(lambda a, b: a + b)
    __radd__ = _bin(lambda a, b: a + b, True)
    __sub__ = _bin(lambda a, b: a - b)
    __rsub__ = _bin(lambda a, b: a - b, True)
    __mul__ = _bin(lambda a, b: a * b)
    __rmul__ = _bin(lambda a, b: a * b, True)

    def __neg__(self):
        return _wrapi(-self.e)

    def __pos__(self):
        return self

    def __abs__(self):
        return _wrapi(z3.If(self.e >= 0, self.e, -self.e))
    __lt__ = _cmp(lambda a, b: a < b)
    __le__ = _cmp(lambda a, b: a <= b)
    __gt__ = _cmp(lambda a, b: a > b)
    __ge__ = _cmp(lambda a, b: a >= b)
    __eq__ = _cmp(lambda a, b: a == b)
    __ne__ = _cmp(lambda a, b: a != b)

    def __hash__(self):
        raise Unsupported("hash of symbolic int")

    def __index__(self):
        raise Unsupported("index of symbolic int")

    def __int__(self):
        raise Unsupported("int() of symbolic int")

    def __float__(self):
        raise Unsupported("float() of symbolic int")

    def __bool__(self):
        return bool(self != 0)

    def __repr__(self):
        return "SInt(..)"
    __str__ = __repr__

    def __format__(self, spec):
        return "SInt(..)"


def B(x):
    """Force a (possibly symbolic) truth value to a Python bool through the engine."""
    return x if isinstance(x, bool) else bool(x)


def sym_and(*xs):
    out = []
    for x in xs:
        if isinstance(x, SBool):
            out.append(x.e)
        elif not x:
            return False
    if not out:
        return True
    return _wrapb(z3.And(*out))


def sym_or(*xs):
    out = []
    for x in xs:
        if isinstance(x, SBool):
            out.append(x.e)
        elif x:
            return True
    if not out:
        return False
    return _wrapb(z3.Or(*out))


def sym_not(x):
    if isinstance(x, SBool):
        return _wrapb(z3.Not(x.e))
    return not x


def to_z3_bool(x):
    if isinstance(x, SBool):
        return x.e
    return z3.BoolVal(bool(x))


def to_z3_int(x):
    if isinstance(x, SInt):
        return x.e
    return z3.IntVal(int(x))


# ---- builtins shims (installed into module namespaces by the harness; never edits /repo)
def shim_isinstance(o, t):
    if builtins.isinstance(o, SInt):
        if t is int or (builtins.isinstance(t, tuple) and int in t):
            return True
        return False
    if builtins.isinstance(o, SBool):
        if t is bool or (builtins.isinstance(t, tuple) and bool in t):
            return True
        return False
    return builtins.isinstance(o, t)


def shim_int(x, *a):
    return x if builtins.isinstance(x, SInt) else builtins.int(x, *a)


def shim_type(x, *a):
    if a:
        return builtins.type(x, *a)
    if builtins.isinstance(x, SInt):
        return int
    if builtins.isinstance(x, SBool):
        return bool
    return builtins.type(x)


# ---- exploration
class Stats(dict):
    pass


def _next_prefix(trail, fixed):
    """Backtrack: drop exhausted decisions, advance the deepest open one. None when exhausted."""
    tr = [list(t) for t in trail]
    while len(tr) > fixed and tr[-1][1] == 0:
        tr.pop()
    if len(tr) <= fixed:
        return None
    last = tr.pop()
    pre = [t[0] for t in tr]
    if last[2] == 'b':
        pre.append(not last[0])
        alts = [t[1] for t in tr] + [0]
    else:
        pre.append(last[0] + 1)
        alts = [t[1] for t in tr] + [last[1] - 1]
    return pre, alts


def _alarm(signum, frame):
    eng = Engine.cur
    if eng is not None:
        eng.abort_requested = True
    raise PathAbort("wall")


def explore(fn, on_path=None, budget_s=None, max_paths=None, prefix=(), fixed=0, stop_depth=None,
            tick_cap=None, stop_on_fail=False, path_wall_s=None, max_fail=None):
    """Run ``fn(engine)`` over every feasible path.

    ``fn`` returns an arbitrary result; ``on_path(engine, result, aborted)`` is called once per completed
    (feasible) path and may return a list of failure records.  Returns Stats with the failures collected.
    """
    t0 = time.time()
    prefix = list(prefix)
    alts = [0] * len(prefix)
    st = Stats(paths=0, infeasible=0, aborted=0, queries=0, solver_s=0.0, exhausted=False, failures=[],
               frontier=[], unsupported=None, max_depth=0)
    while True:
        eng = Engine(prefix, fixed=fixed, stop_depth=stop_depth)
        eng.tick_cap = tick_cap
        eng._alts = alts
        Engine.cur = eng
        aborted = None
        result = None
        feasible = True
        try:
            try:
                if path_wall_s:
                    old = signal.signal(signal.SIGALRM, _alarm)
                    signal.setitimer(signal.ITIMER_REAL, path_wall_s)
                try:
                    result = fn(eng)
                finally:
                    if path_wall_s:
                        signal.setitimer(signal.ITIMER_REAL, 0)
                        signal.signal(signal.SIGALRM, old)
            except PathAbort as pa:
                aborted = pa.why
            except Unsupported:
                raise
            except Exception:
                # an alarm that fired inside a C call (ctypes) surfaces as some other exception type
                if not eng.abort_requested:
                    raise
                aborted = "wall"
            eng.abort_requested = False
            eng.ensure_model()
        except Infeasible:
            feasible = False
            st['infeasible'] += 1
        except Frontier:
            feasible = False
            st['frontier'].append([t[0] for t in eng.trail])
        except Unsupported as u:
            st['unsupported'] = repr(u)
            st['queries'] += eng.queries
            st['solver_s'] += eng.solver_time
            break
        if feasible:
            st['paths'] += 1
            if aborted:
                st['aborted'] += 1
            if on_path is not None:
                try:
                    fails = on_path(eng, result, aborted)
                except Unsupported as u:
                    st['unsupported'] = repr(u)
                    break
                if fails:
                    st['failures'].extend(fails)
                    if stop_on_fail or (max_fail and sum(1 for f in st['failures'] if f.get('reproduced')) >= max_fail):
                        st['stopped_on_failures'] = True
                        st['queries'] += eng.queries
                        st['solver_s'] += eng.solver_time
                        break
        st['queries'] += eng.queries
        st['solver_s'] += eng.solver_time
        st['max_depth'] = max(st['max_depth'], len(eng.trail))
        # merge alternatives known from earlier runs for replayed entries
        tr = eng.trail
        for i in range(min(len(alts), len(tr))):
            tr[i][1] = alts[i]
        nxt = _next_prefix(tr, fixed)
        if nxt is None:
            st['exhausted'] = True
            break
        prefix, alts = nxt
        if max_paths and st['paths'] >= max_paths:
            break
        if budget_s and time.time() - t0 > budget_s:
            break
    Engine.cur = None
    st['wall'] = round(time.time() - t0, 3)
    st['solver_s'] = round(st['solver_s'], 3)
    return st
