"""Per-run validation of the environment stubs and of the engine against the real code (concrete differential runs).
A failure here is a harness error (exit 2), never a VIOLATION."""
import itertools
import random

from . import common, stubs
from .common import PATCHES
from .symx.core import Engine, explore


def interval_tree(seed=0, rounds=300):
    """ListIntervalTree vs the real intervaltree on seeded interval sets (duplicates, touching ends, nesting)."""
    from intervaltree import IntervalTree, Interval
    rnd = random.Random(seed)
    errors = []
    n = 0
    for _ in range(rounds):
        real, stub = IntervalTree(), stubs.ListIntervalTree()
        datas = [object() for _ in range(rnd.randint(1, 5))]
        ivs = []
        for d in datas:
            b = rnd.randint(0, 8)
            e = b + rnd.randint(1, 5)
            ivs.append((b, e, d))
            if rnd.random() < 0.3:
                ivs.append((b, e, d))          # exact duplicate triple
        for b, e, d in ivs:
            real.add(Interval(b, e, d))
            stub.add(stubs.SInterval(b, e, d))
        n += 1
        if len(real) != len(stub):
            errors.append(f"len {len(real)} vs {len(stub)} for {[(b, e) for b, e, _ in ivs]}")
            continue
        qb = rnd.randint(0, 10)
        qe = qb + rnd.randint(1, 5)
        r1 = sorted((i.begin, i.end, id(i.data)) for i in real[qb:qe])
        saved = Engine.cur
        try:
            r2 = sorted((i.begin, i.end, id(i.data)) for i in _det(lambda: stub[qb:qe]))
            if r1 != r2:
                errors.append(f"query [{qb}:{qe}] differs")
            if real.overlaps(qb, qe) != _det(lambda: stub.overlaps(qb, qe)):
                errors.append("overlaps differs")
            # the real tree's first maximal interval (hash order) must be one the stub may put first
            best = None
            for m in real:
                if best is None or m.end - m.begin > best.end - best.begin:
                    best = m
            size = best.end - best.begin
            maximal = [(i.begin, i.end, id(i.data)) for i in stub.items if i.end - i.begin == size]
            if (best.begin, best.end, id(best.data)) not in maximal:
                errors.append("real tree's biggest interval is not maximal in the stub")
            # remove one
            b, e, d = ivs[0]
            real.remove(Interval(b, e, d))
            _det(lambda: stub.remove(stubs.SInterval(b, e, d)))
            if len(real) != len(stub):
                errors.append("len after remove differs")
        finally:
            Engine.cur = saved
    return n, errors


class _DetEngine:
    """stand-in engine for concrete stub calls: choices resolve to 0"""

    def choose(self, n, tag=None):
        return 0

    def tick(self, n=1):
        pass


def _det(f):
    saved = Engine.cur
    Engine.cur = _DetEngine()
    try:
        return f()
    finally:
        Engine.cur = saved


def mwbm_contract(seed=0, rounds=200):
    """The real min_weight_bipartite_matching (scipy) returns an answer the contract stub allows: valid, maximum
    cardinality, minimum total -- on seeded complete tables with many ties."""
    import graphtage.matching as gm
    real = _orig(gm, 'min_weight_bipartite_matching')
    rnd = random.Random(seed + 1)
    errors = []
    for _ in range(rounds):
        n, m = rnd.randint(1, 3), rnd.randint(1, 3)
        w = [[rnd.randint(0, 3) for _ in range(m)] for _ in range(n)]
        got = real(list(range(n)), list(range(m)), lambda i, j: w[i][j])
        pairs = sorted((i, j) for i, (j, _) in got.items())
        cands = [sorted(c) for c in stubs._assignments(n, m)]
        if pairs not in cands:
            errors.append(f"real answer {pairs} not a maximum-cardinality assignment for {w}")
            continue
        cost = sum(w[i][j] for i, j in pairs)
        if cost != min(sum(w[i][j] for i, j in c) for c in cands):
            errors.append(f"real answer not optimal for {w}")
        if any(got[i][1] != w[i][got[i][0]] for i in got):
            errors.append("reported weight differs")
    return rounds, errors


def _orig(module, attr):
    """the real (un-stubbed) attribute, whether or not PATCHES are installed"""
    for obj, a, had, orig, value in PATCHES.items:
        if obj is module and a == attr:
            return orig
    return getattr(module, attr)


def lev_summary(maxlen=3):
    """summary If-tree vs the real levenshtein_distance on every string pair over {a,b,c} up to maxlen."""
    import z3
    from . import leaves
    import graphtage.levenshtein as lev
    real = _orig(lev, 'levenshtein_distance') if leaves.SUMMARIES.real is None else leaves.SUMMARIES.real
    leaves.SUMMARIES.real = real
    errors = []
    n = 0
    alpha = "ab1"
    for ls in range(maxlen + 1):
        for lt in range(maxlen + 1):
            ps, qs, expr, npaths = leaves.SUMMARIES.get(ls, lt)
            for s in itertools.product(alpha, repeat=ls):
                for t in itertools.product(alpha, repeat=lt):
                    sub = [(p, z3.IntVal(ord(c))) for p, c in zip(ps, s)] + [(q, z3.IntVal(ord(c))) for q, c in zip(qs, t)]
                    v = z3.simplify(z3.substitute(expr, *sub)) if sub else z3.simplify(expr)
                    n += 1
                    if not z3.is_int_value(v) or v.as_long() != real(''.join(s), ''.join(t)):
                        errors.append(f"summary({''.join(s)!r},{''.join(t)!r}) = {v} but real = {real(''.join(s), ''.join(t))}")
                        if len(errors) > 5:
                            return n, errors
    return n, errors


def engine_vs_plain(body_cost, docs):
    """Run the harness (a) concretely on the real code and (b) under symx with every leaf pinned to the same value;
    final cost and script shape must agree."""
    from . import tree_harness as th
    errors = []
    for A, B_, opts in docs:
        wit = dict(A=A, B=B_, dict=opts.get('dict', 'auto'), list=opts.get('list', 'on'), quiet=False, extra=None)
        plain = th.replay(wit, body_cost)
        sym = []

        def fn(eng):
            objA, objB = th.from_witness(A), th.from_witness(B_)
            return body_cost(th.to_tree(_lift(objA), th.build_options(wit['dict'], wit['list'])),
                             th.to_tree(_lift(objB), th.build_options(wit['dict'], wit['list'])), objA, objB, {})

        def on_path(eng, res, aborted):
            sym.append(res)
        st = explore(fn, on_path, budget_s=60)
        if st['paths'] != 1 or not st['exhausted']:
            errors.append(f"pinned run of {A}->{B_} has {st['paths']} paths")
        elif sym[0] != plain:
            errors.append(f"engine/plain disagreement on {A}->{B_}: {sym[0]} vs {plain}")
    return len(docs), errors


def _lift(obj):
    """concrete python object -> same object with Pay leaves whose characters are concrete code points"""
    from .leaves import Pay
    from . import tree_harness as th
    if isinstance(obj, bool) or obj is None:
        return obj
    if isinstance(obj, int):
        return Pay([ord(c) for c in str(obj)], str(obj), 'int')
    if isinstance(obj, str):
        return Pay([ord(c) for c in obj], obj, 'str')
    if isinstance(obj, th.MSet):
        return th.MSet(_lift(c) for c in obj)
    if isinstance(obj, th.PList):
        return th.PList(_lift(obj.root))
    if isinstance(obj, list):
        return [_lift(c) for c in obj]
    if isinstance(obj, dict):
        return {_lift(k): _lift(v) for k, v in obj.items()}
    return obj


def cost_body(A, Bn, objA, objB, job):
    """(cost, script shape) of a diff -- used by engine_vs_plain"""
    from . import tree_harness as th
    d = A.diff(Bn)
    cost = d.edited_cost()
    top = d.edit_list[0]
    s = th.extract(top)

    def shape(x):
        return (x.cls, x.kind, [shape(c) for c in x.subs] if x.subs is not None else None)
    return (int(cost) if isinstance(cost, int) else str(th.val(cost)), shape(s))


REPO_TEST_DOCS = [
    # the diffs asserted in test/test_graphtage.py plus small seeded documents
    ({"test": "foo", "baz": 1}, {"test": "bar", "baz": 2}, {}),
    ([0, 1, 2, 3, 4, 5], [1, 2, 3, 4, 5], {}),
    ([1], [2], {}),
    ([], [], {}),
    ([1, [2, 3], 4], [1, [2, 4], 5, 4], {}),
    ({"a": [1, 2], "b": {"c": 1}}, {"a": [2, 1], "b": {"c": 2, "d": 3}}, {}),
    ({"a": 1, "b": 22}, {"c": 23}, {'dict': 'match'}),
    ({"a": 1, "b": 2}, {"a": 2, "c": 2}, {'dict': 'none'}),
    ([1, 2, 3], [1, 5], {'list': 'off'}),
    ([1, 2], [2, 1], {'list': 'same'}),
]


def tree_pre(seed=0):
    """conformance bundle shared by the tree properties"""
    from . import tree_harness as th
    th.install()
    info, errors = {}, []
    for name, f in (('interval_tree', lambda: interval_tree(seed)), ('mwbm_contract', lambda: mwbm_contract(seed)),
                    ('lev_summary', lambda: lev_summary(2)),
                    ('engine_vs_plain', lambda: engine_vs_plain(cost_body, REPO_TEST_DOCS))):
        n, errs = f()
        info[name] = n
        errors += [f"{name}: {e}" for e in errs[:3]]
    return dict(errors=errors, info=info, conformance_cases=sum(info.values()))
