"""python -m verif.check <ID> [--tier quick|thorough] [--replay file]

Generic master: runs a property module's pre-checks (stub conformance, reachability twins), its jobs on a
16-process pool, classifies reproduced failures against known_findings.json, writes evidence, and applies the
exit protocol (0 held / 1 VIOLATION / 2 inconclusive or harness error).
"""
import argparse
import importlib
import json
import os
import sys
import time

from . import common
from .common import EXIT_OK, EXIT_VIOLATION, EXIT_INCONCLUSIVE, log


def _match_known(mod, known, failure):
    for k in known:
        m = k.get('match', {})
        if 'tag' in m and not _tag_ok(m['tag'], failure.get('tag')):
            continue
        if 'site' in m and m['site'] != failure.get('site'):
            continue
        region = m.get('region')
        if region:
            fn = getattr(mod, 'REGIONS', {}).get(region)
            if fn is None:
                continue
            try:
                if not fn(failure.get('witness'), failure):
                    continue
            except Exception:   # noqa
                continue
        return k
    return None


def _tag_ok(pat, tag):
    if isinstance(pat, list):
        return any(_tag_ok(p, tag) for p in pat)
    if tag is None:
        return False
    if pat.endswith('*'):
        return tag.startswith(pat[:-1])
    return pat == tag


def main(argv=None):
    ap = argparse.ArgumentParser()
    ap.add_argument('prop')
    ap.add_argument('--tier', default=os.environ.get('VERIF_TIER', 'quick'), choices=['quick', 'thorough'])
    ap.add_argument('--replay', default=None)
    ap.add_argument('--procs', type=int, default=None)
    ap.add_argument('--only', default=None, help='debug: substring filter on job repr')
    args = ap.parse_args(argv)
    prop = args.prop.upper()
    seed = int(os.environ.get('VERIF_SEED', '0') or 0)
    mod = importlib.import_module(f"verif.props.{prop.lower()}")

    if args.replay:
        with open(args.replay) as f:
            payload = json.load(f)
        r = mod.replay_witness(payload['witness'])
        if r:
            print(f"replay: property {prop} violated: {r}")
            print(f"VIOLATION property={prop} replay={args.replay}")
            return EXIT_VIOLATION
        print("replay: no violation reproduced")
        return EXIT_OK

    t0 = time.time()
    problems = []          # harness errors / inconclusive reasons
    pre_info = {}
    if hasattr(mod, 'pre'):
        try:
            pre_info = mod.pre(args.tier, seed) or {}
            for p in pre_info.get('errors', []):
                problems.append(f"pre-check: {p}")
        except Exception as ex:   # noqa
            import traceback
            problems.append(f"pre-check raised {type(ex).__name__}: {ex} {traceback.format_exc()[-1500:]}")

    jobs = mod.jobs(args.tier, seed)
    if args.only:
        jobs = [j for j in jobs if args.only in repr(j)]
    if os.environ.get('VERIF_BUDGET'):
        jobs = [dict(j, budget=int(os.environ['VERIF_BUDGET'])) for j in jobs]
    budget = getattr(mod, 'DEADLINE', {}).get(args.tier, 3000 if args.tier == 'quick' else 6 * 3600)
    results = common.run_jobs(mod.__name__, jobs, procs=args.procs, deadline=t0 + budget)

    if os.environ.get('VERIF_JOBTIMES'):
        import collections
        agg = collections.defaultdict(lambda: [0, 0, 0.0, 0])
        for r in results:
            j = r.get('job') or {}
            k = (j.get('fam'), j.get('kind'), j.get('dict'), j.get('list'), str(j.get('shape')), str(j.get('lens')))
            a = agg[k]
            a[0] += r.get('paths', 0)
            a[1] += 1
            a[2] += r.get('wall', 0)
            a[3] += 0 if (r.get('exhausted') or r.get('frontier')) else 1
        for k, a in sorted(agg.items(), key=lambda kv: -kv[1][2])[:14]:
            log('jobtime', round(a[2]), 'cpu-s', a[0], 'paths', a[1], 'procs', 'NOTEXH' if a[3] else '', k)
    paths = queries = infeasible = aborted = 0
    solver_s = 0.0
    replays = 0
    spurious = 0
    samples = []
    failures = []
    not_exhausted = []
    early = []
    twins = []
    anchors = {}
    extra = {}
    for r in results:
        if r.get('error'):
            problems.append(f"job {r.get('job')}: {r['error']} {r.get('trace', '')[-600:]}")
            continue
        paths += r.get('paths', 0)
        queries += r.get('queries', 0)
        infeasible += r.get('infeasible', 0)
        aborted += r.get('aborted', 0)
        solver_s += r.get('solver_s', 0.0)
        if r.get('unsupported'):
            problems.append(f"job {r.get('job')}: unsupported {r['unsupported']}")
        if isinstance(r.get('frontier'), list):
            r['frontier'] = len(r['frontier'])
        if not r.get('exhausted', False) and not r.get('stopped_on_failures') and not (r.get('job') or {}).get('region_job'):
            not_exhausted.append(r.get('job'))
        if r.get('stopped_on_failures') and not (r.get('job') or {}).get('region_job'):
            early.append(r)
        if 'twin_reached' in r:
            twins.append(bool(r['twin_reached']))
        for k, v in (r.get('anchors') or {}).items():
            anchors[k] = anchors.get(k, 0) + v
        for k, v in (r.get('extra') or {}).items():
            if isinstance(v, (int, float)):
                extra[k] = extra.get(k, 0) + v
        for s in r.get('samples', [])[:2]:
            if len(samples) < 12:
                samples.append(s)
        for f in r.get('failures', []):
            f['job'] = r.get('job')
            if f.get('reproduced') is None:
                pass
            replays += 1 if f.get('reproduced') is not None else 0
            if f.get('reproduced'):
                failures.append(f)
            elif f.get('reproduced') is False:
                spurious += 1
                if str(f.get('tag', '')).startswith('exception') and not any(str(t).startswith('exception') for t in f.get('replay_tags', [])):
                    problems.append(f"exception only in the symbolic run (stub gap?): {f.get('tag')} at {f.get('site')}: {f.get('detail')}")
            else:
                failures.append(f)     # not replayable => treated as failure of the harness below
    if not_exhausted:
        problems.append(f"{len(not_exhausted)} job(s) not exhausted within budget, e.g. {not_exhausted[:3]}")
    if twins and not all(twins):
        problems.append("reachability twin did not reach its assertion point")
    need = getattr(mod, 'REQUIRED_ANCHORS', [])
    for a in need:
        if anchors.get(a, 0) == 0:
            problems.append(f"anchor never entered: {a}")
    if hasattr(mod, 'post'):
        try:
            for p in mod.post(results, args.tier) or []:
                problems.append(p)
        except Exception as ex:   # noqa
            problems.append(f"post raised {type(ex).__name__}: {ex}")

    # ---- known findings
    known = common.load_known(prop)
    known_lines = []
    for k in known:
        try:
            r = mod.replay_witness(k['witness'])
        except Exception as ex:    # noqa
            r = None
            problems.append(f"known finding {k.get('id')}: witness replay raised {type(ex).__name__}: {ex}")
        replays += 1
        if r:
            known_lines.append(f"KNOWN-FINDING: property={prop} {k.get('id')} {k.get('description')}")
        else:
            log(f"note: listed finding {k.get('id')} no longer reproduces on this tree")
    new = []
    known_hits = {}
    for f in failures:
        if f.get('reproduced') is None:
            problems.append(f"failure without replay: {f.get('tag')} {f.get('site')}")
            continue
        k = _match_known(mod, known, f)
        if k is not None:
            known_hits[k['id']] = known_hits.get(k['id'], 0) + 1
        else:
            new.append(f)

    newjobs = set(json.dumps(f.get('job'), sort_keys=True, default=str) for f in new)
    for r in early:
        if json.dumps(r.get('job'), sort_keys=True, default=str) not in newjobs:
            problems.append(f"job stopped early on listed findings only, rest unexplored: {r.get('job')}")

    # ---- report
    for line in known_lines:
        print(line)
    viol_lines = []
    seen = set()
    for f in new:
        key = (f.get('tag'), f.get('site'))
        if key in seen and len(viol_lines) >= 1:
            continue
        seen.add(key)
        if len(viol_lines) >= 5:
            break
        path = common.write_replay(prop, dict(property=prop, tag=f.get('tag'), site=f.get('site'),
                                              detail=f.get('detail'), witness=f.get('witness'), job=f.get('job')))
        viol_lines.append(f"VIOLATION property={prop} replay={path}")
        log(f"violation: {f.get('tag')} @ {f.get('site')}: {f.get('detail')} witness={json.dumps(f.get('witness'), default=str)[:400]}")

    wall = time.time() - t0
    meta = getattr(mod, 'META', {})
    exhaustive = not problems and not not_exhausted
    coverage = dict(
        states=max(paths, 1), transitions=max(queries, 1), traces_validated_against_impl=replays + pre_info.get('conformance_cases', 0),
        samples=samples or [dict(note="no path completed")],
        exhaustive=bool(exhaustive),
        explanation=("states = feasible execution paths of the real code explored by symx (each closed by z3); "
                     "transitions = solver queries discharged; traces_validated = counterexample/known-finding replays "
                     "on un-stubbed code + stub-conformance cases"),
        paths=paths, infeasible_paths=infeasible, watchdog_aborted_paths=aborted, solver_queries=queries,
        solver_time_s=round(solver_s, 2), jobs=len(jobs), jobs_not_exhausted=len(not_exhausted),
        functions_encoded=meta.get('functions', []), stubs_and_shims=meta.get('stubs', []) + common.PATCHES.describe(),
        bounds=getattr(mod, 'bounds_text', lambda t: meta.get('bounds', ''))(args.tier),
        outside_claim=meta.get('outside', []),
        anchors_hit=anchors, reachability_twins=dict(run=len(twins), reached=sum(twins)),
        spurious_models_not_reproduced=spurious, known_finding_paths=known_hits, new_failures=len(new),
        pre_checks=pre_info.get('info', {}), sources=common.repo_sources(meta.get('files', [])),
        inconclusive_reasons=problems[:10], extra=extra,
    )
    common.write_evidence(prop, args.tier, seed, coverage, meta.get('assumptions', []), wall, len(new))
    log(f"[{prop}/{args.tier}] jobs={len(jobs)} paths={paths} queries={queries} solver={solver_s:.1f}s wall={wall:.1f}s "
        f"failures={len(failures)} new={len(new)} known={known_hits} spurious={spurious} problems={len(problems)}")
    if viol_lines:
        for v in viol_lines:
            print(v)
        return EXIT_VIOLATION
    if problems:
        for p in problems[:20]:
            log("INCONCLUSIVE:", p)
        return EXIT_INCONCLUSIVE
    print(f"OK property={prop} tier={args.tier} paths={paths} queries={queries} exhausted=yes")
    return EXIT_OK


if __name__ == '__main__':
    sys.exit(main())
