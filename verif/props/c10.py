"""C10 -- matching options restrict the script as documented ('none': no cross-key pairs; 'auto': shared keys pair with
themselves; list edits off / off-when-same-length: strictly positional pairs plus one surplus tail)."""
from .. import tree_harness as th
from ..tree_harness import guarded, B

PROP = "C10"


def check_options(s, job, fails, path="top"):
    from graphtage import KeyValuePairNode, ListNode, DictNode, FixedKeyDictNode
    from graphtage.graphtage import MappingNode
    strategy, mode = job.get('dict', 'auto'), job.get('list', 'on')
    if s.subs is None:
        return
    f, t = s.f, s.t
    # ---- dictionary strategies
    if isinstance(f, MappingNode) and isinstance(t, MappingNode):
        pairs = [(c.f, c.t) for c in s.subs if c.kind == 'pair' and isinstance(c.f, KeyValuePairNode) and isinstance(c.t, KeyValuePairNode)]
        if strategy == 'none':
            for a, b in pairs:
                if not B(a.key == b.key):
                    fails.append(dict(tag='none-pairs-different-keys', site=s.cls, detail=path))
                    break
        if strategy == 'auto':
            fk = [c for c in th.children_of(f)]
            tk = [c for c in th.children_of(t)]
            for a in fk:
                for b in tk:
                    if B(a.key == b.key):
                        if not any(pa is a and pb is b for pa, pb in pairs) and \
                                not any(c.kind == 'pair' and c.f is a and c.t is b for c in s.subs):
                            fails.append(dict(tag='auto-shared-key-not-self-paired', site=s.cls, detail=path))
    if strategy == 'none':
        for c in s.subs:
            if c.kind == 'pair' and isinstance(c.f, KeyValuePairNode) and isinstance(c.t, KeyValuePairNode) \
                    and c.cls != 'Replace' and not B(c.f.key == c.t.key):
                fails.append(dict(tag='none-pairs-different-keys', site=c.cls, detail=path))
    # ---- list modes
    if isinstance(f, ListNode) and isinstance(t, ListNode):
        fch, tch = th.children_of(f), th.children_of(t)
        positional = mode == 'off' or (mode == 'same' and len(fch) == len(tch))
        if positional:
            k = min(len(fch), len(tch))
            prs = [(c.f, c.t) for c in s.subs if c.kind == 'pair']
            rem = [c.f for c in s.subs if c.kind == 'remove']
            ins = [c.t for c in s.subs if c.kind == 'insert']
            ok = (len(prs) == k and all(a is fch[i] and b is tch[i] for i, (a, b) in enumerate(prs))
                  and th.ids(rem) == th.ids(fch[k:]) and th.ids(ins) == th.ids(tch[k:]) and not (rem and ins))
            if not ok:
                fails.append(dict(tag='list-not-positional', site=s.cls,
                                  detail=f"{path}: {len(prs)} pairs, {len(rem)} removes, {len(ins)} inserts for {len(fch)}->{len(tch)}"))
    for i, c in enumerate(s.subs):
        check_options(c, job, fails, f"{path}/{i}")


def check_flags(node, job, fails):
    """BuildOptions -> node flags, read back from the tree the real json.build_tree produced"""
    from graphtage import ListNode, DictNode, FixedKeyDictNode, KeyValuePairNode
    strategy, mode = job.get('dict', 'auto'), job.get('list', 'on')
    for n in node.dfs():
        if isinstance(n, ListNode):
            if n.allow_list_edits != (mode != 'off') or n.allow_list_edits_when_same_length != (mode != 'same'):
                fails.append(dict(tag='list-flags', site='json.build_tree', detail=f"{n.allow_list_edits},{n.allow_list_edits_when_same_length} for {mode}"))
                return
        if isinstance(n, (DictNode, FixedKeyDictNode)):
            if isinstance(n, FixedKeyDictNode) != (strategy == 'none'):
                fails.append(dict(tag='dict-class', site='json.build_tree', detail=type(n).__name__))
                return
            if isinstance(n, DictNode) and n.auto_match_keys != (strategy == 'auto'):
                fails.append(dict(tag='dict-flags', site='json.build_tree', detail=f"auto_match_keys={n.auto_match_keys} for {strategy}"))
                return
        if isinstance(n, KeyValuePairNode) and n.allow_key_edits != (strategy != 'none'):
            fails.append(dict(tag='kvp-flags', site='json.build_tree', detail=f"allow_key_edits={n.allow_key_edits} for {strategy}"))
            return


@guarded
def body(A, Bn, objA, objB, job):
    fails = []
    if not isinstance(objA, (th.MSet, th.PList)):
        check_flags(A, job, fails)
    if not isinstance(objB, (th.MSet, th.PList)):
        check_flags(Bn, job, fails)
    d = A.diff(Bn)
    top = d.edit_list[0] if d.edit_list else None
    if top is None:
        return fails + [dict(tag='no-edit', site='TreeNode.diff', detail=None)]
    s = th.extract(top)
    check_options(s, job, fails)
    return fails


def run_job(job):
    return th.run_tree_job(job, body, site_default='TreeNode.diff', hang_tags=False)


def replay_witness(w):
    r = th.replay(w, body, dict(dict=w.get('dict', 'auto'), list=w.get('list', 'on')))
    return ', '.join(sorted(set(f['tag'] + '@' + str(f['site']) for f in r))) if r else None


def jobs(tier, seed):
    return th.tree_jobs(tier, skip=['mset', 'x-mset'])


META = dict(functions=th.TREE_FUNCTIONS + ["BuildOptions -> node flags in graphtage.json.build_tree", "ListNode.edits selection of "
                                            "FixedLengthSequenceEdit vs EditDistance", "MultiSetEdit.__init__ auto key pre-matching",
                                            "FixedKeyDictNode._child_edits", "KeyValuePairNode.edits"],
            stubs=th.TREE_STUBS, assumptions=th.TREE_ASSUME, files=th.TREE_FILES)
bounds_text = th.tree_bounds_text
REGIONS = dict(mset_duplicates=lambda w, f: th.matcher_collapse_region(w))


def pre(tier, seed):
    from .. import conformance
    return conformance.tree_pre(seed)
