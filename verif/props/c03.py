"""C03 -- the reported cost equals the sum of its parts, in every view."""
from .. import tree_harness as th
from ..tree_harness import guarded, B, val

PROP = "C03"


@guarded
def body(A, Bn, objA, objB, job):
    fails = []
    # view 1: the annotated diff tree
    d = A.diff(Bn)
    top = d.edit_list[0] if d.edit_list else None       # the edit TreeNode.diff computed for the root
    if top is None:
        return [dict(tag='no-edit', site='TreeNode.diff', detail=None)]
    cost_tree = d.edited_cost()            # fully tightens the edits attached to the root
    th.tighten_all(top)
    s = th.extract(top)
    th.check_sums(s, fails)
    tb = top.bounds()
    if not B(tb.lower_bound == tb.upper_bound):
        fails.append(dict(tag='top-not-definitive', site=s.cls, detail=None))
    elif not B(tb.upper_bound == cost_tree):
        fails.append(dict(tag='edited_cost-mismatch', site=s.cls, detail=f"bounds {val(tb.upper_bound)} edited_cost {val(cost_tree)}"))
    # view 2: the flat list of all edits (fresh run on the same documents)
    total = 0
    for e in A.get_all_edits(Bn):
        th.tighten_all(e)
        total = total + e.bounds().upper_bound
    if B(tb.lower_bound == tb.upper_bound) and not B(total == tb.upper_bound):
        fails.append(dict(tag='get_all_edits-mismatch', site=s.cls, detail=f"top {val(tb.upper_bound)} flat {val(total)}"))
    return fails


def run_job(job):
    return th.run_tree_job(job, body, site_default='TreeNode.diff', hang_tags=False)


def replay_witness(w):
    r = th.replay(w, body)
    return ', '.join(sorted(set(f['tag'] + '@' + str(f['site']) for f in r))) if r else None


def jobs(tier, seed):
    js = th.tree_jobs(tier)
    js += [dict(dict(alpha=3), **j) for j in th.KNOWN_DUP_JOBS]
    return js

META = dict(functions=th.TREE_FUNCTIONS, stubs=th.TREE_STUBS, assumptions=th.TREE_ASSUME, files=th.TREE_FILES)
bounds_text = th.tree_bounds_text
REGIONS = dict(mset_duplicates=lambda w, f: th.matcher_collapse_region(w))


def pre(tier, seed):
    from .. import conformance
    return conformance.tree_pre(seed)
