"""C17 -- bound-driven search, ordering and separation are correct.

Real code executed: graphtage.search.IterativeTighteningSearch (tighten_bounds, goal_test, best_match, bounds, search,
_update_bounds, _delete_node), graphtage.bounds.BoundedComparator, sort, min_bounded, make_distinct,
Range, FibonacciHeap underneath.  Items are synthetic Bounded objects whose tightening schedule is a chain of nested
intervals ending in a point; every end point is a symbolic integer.
"""
import itertools

import z3

from .. import common, stubs
from ..common import PATCHES
from ..symx.core import Engine, explore, B, sym_and, sym_or, SInt, SBool, Unsupported, PathAbort, shim_isinstance
from .. import tree_harness as th

PROP = "C17"

META = dict(
    functions=["graphtage.search.IterativeTighteningSearch.{tighten_bounds,bounds,best_match,goal_test,search,_update_bounds,"
               "_delete_node}", "graphtage.bounds.BoundedComparator.__lt__/__le__", "bounds.sort", "bounds.min_bounded",
               "bounds.make_distinct", "bounds.Range", "bounds.Infinity", "fibonacci.FibonacciHeap (under search and sort)"],
    stubs=["intervaltree in graphtage.bounds -> list model with nondeterministic tie order (make_distinct only)",
           "isinstance shim for proxies in graphtage.bounds / graphtage.search"],
    assumptions=["items tighten soundly: every step yields a strictly smaller nested interval, the last one is a point "
                 "(the property's own precondition)", "end points are mathematical integers >= 0"],
    files=["graphtage/search.py", "graphtage/bounds.py", "graphtage/fibonacci.py"],
    outside=["collections of more than 4 items, schedules longer than 3 steps per item"],
)

CAP = 400


class Item:
    """Bounded object with a fixed tightening schedule [(lo0,hi0), ..., (v,v)]."""

    def __init__(self, name, sched):
        self.name = name
        self.sched = sched
        self.i = 0
        self.calls = 0

    def bounds(self):
        from graphtage.bounds import Range
        lo, hi = self.sched[self.i]
        return Range(lo, hi)

    def tighten_bounds(self):
        self.calls += 1
        eng = Engine.cur
        if eng is not None:
            eng.tick()
        elif self.calls > 10000:
            raise common.Timeout()
        if self.i < len(self.sched) - 1:
            self.i += 1
            return True
        return False

    @property
    def final(self):
        return self.sched[-1][0]

    def __repr__(self):
        return f"Item({self.name})"


def sym_items(eng, lengths):
    items = []
    for n, k in enumerate(lengths):
        sched = []
        plo = phi = None
        for j in range(k):
            last = j == k - 1
            lo = eng.fresh_int(f"i{n}lo{j}")
            hi = lo if last else eng.fresh_int(f"i{n}hi{j}")
            eng.assume(lo >= 0)
            if not last:
                eng.assume(lo <= hi)
                eng.assume(lo != hi)         # not yet a point
            if plo is not None:
                eng.assume(lo >= plo)
                eng.assume(hi <= phi)
                c = sym_or(lo > plo, hi < phi)
                eng.assume(c)
            sched.append((lo, hi))
            plo, phi = lo, hi
        items.append(Item(f"i{n}", sched))
    return items


def concrete_items(w):
    return [Item(f"i{n}", [tuple(p) for p in sched]) for n, sched in enumerate(w['items'])]


def is_min(it, items):
    return sym_and(*[it.final <= o.final for o in items])


def check(kind, items):
    """runs one API against the items; returns failure list"""
    from graphtage.search import IterativeTighteningSearch
    from graphtage import bounds as gb
    fails = []
    try:
        if kind == 'search':
            s = IterativeTighteningSearch(iter(items))
            th.MONITOR.start('active')
            try:
                n = 0
                while s.tighten_bounds():
                    n += 1
                    if n > CAP:
                        raise PathAbort('cap')
                best = s.best_match
            finally:
                th.MONITOR.stop()
            if not items:
                if best is not None:
                    fails.append(dict(tag='search-nonempty-result', site='search'))
                return fails
            if best is None or not any(best is it for it in items):
                fails.append(dict(tag='search-no-result', site='IterativeTighteningSearch'))
            else:
                if not B(is_min(best, items)):
                    fails.append(dict(tag='search-not-minimum', site='IterativeTighteningSearch', detail=f"returned {best}"))
                b = s.bounds()
                if not (B(b.lower_bound == b.upper_bound) and B(b.upper_bound == best.final)):
                    fails.append(dict(tag='search-bounds-not-final', site='IterativeTighteningSearch',
                                      detail=f"[{th.val(b.lower_bound)},{th.val(b.upper_bound)}] vs {th.val(best.final)}"))
            th.check_monitor(th.MONITOR, fails, final=True)
        elif kind == 'sort':
            out = list(gb.sort(items))
            if len(out) != len(items) or sorted(map(id, out)) != sorted(map(id, items)):
                fails.append(dict(tag='sort-not-permutation', site='bounds.sort'))
            else:
                for a, b in zip(out, out[1:]):
                    if not B(a.final <= b.final):
                        fails.append(dict(tag='sort-order', site='bounds.sort', detail=f"{a} before {b}"))
                        break
        elif kind == 'min':
            m = gb.min_bounded(iter(items))
            if not items:
                return fails
            if m is None or not any(m is it for it in items):
                fails.append(dict(tag='min-no-result', site='bounds.min_bounded'))
            elif not B(is_min(m, items)):
                fails.append(dict(tag='min-not-minimum', site='bounds.min_bounded', detail=f"returned {m}"))
        elif kind == 'distinct':
            gb.make_distinct(*items)
            for a, b in itertools.combinations(items, 2):
                ra, rb = a.bounds(), b.bounds()
                both_def = sym_and(ra.lower_bound == ra.upper_bound, rb.lower_bound == rb.upper_bound)
                disjoint = sym_or(ra.upper_bound < rb.lower_bound, rb.upper_bound < ra.lower_bound)
                if not B(sym_or(both_def, disjoint)):
                    fails.append(dict(tag='distinct-overlap', site='bounds.make_distinct',
                                      detail=f"{a}=[{th.val(ra.lower_bound)},{th.val(ra.upper_bound)}] {b}=[{th.val(rb.lower_bound)},{th.val(rb.upper_bound)}]"))
                    break
    except th.REAL_ERRORS as ex:
        import traceback
        tb = traceback.extract_tb(ex.__traceback__)
        where = next((f"{fr.filename.split('/')[-1]}:{fr.lineno}" for fr in reversed(tb) if '/graphtage/' in fr.filename), '?')
        fails.append(dict(tag='exception:' + type(ex).__name__, site=where, detail=str(ex)[:200]))
    return fails


_inst = [False]


def install():
    if _inst[0]:
        return
    import graphtage.bounds as gb
    import graphtage.search as gs
    PATCHES.set(gb, 'isinstance', shim_isinstance)
    PATCHES.set(gs, 'isinstance', shim_isinstance)
    PATCHES.set(gb, 'IntervalTree', stubs.ListIntervalTree)
    PATCHES.set(gb, 'Interval', stubs.SInterval)
    PATCHES.install()
    th.MONITOR.install()
    import logging
    logging.disable(logging.CRITICAL)
    _inst[0] = True


def replay(w):
    saved = Engine.cur
    Engine.cur = None
    try:
        with PATCHES.pristine():
            th.MONITOR.install()
            try:
                with common.wall_limit(10):
                    return check(w['kind'], concrete_items(w))
            except common.Timeout:
                return [dict(tag='hang', site=w['kind'])]
    finally:
        Engine.cur = saved


def replay_witness(w):
    r = replay(w)
    return ', '.join(sorted(set(f['tag'] for f in r))) if r else None


def run_job(job):
    install()
    samples = []
    kind = job['kind']
    twin = [0]

    def fn(eng):
        items = sym_items(eng, job['lengths'])
        eng.notes['items'] = items
        if kind == 'twin':
            return check('search', items)
        return check(kind, items)

    def on_path(eng, fails, aborted):
        items = eng.notes['items']
        wit = dict(kind=kind if kind != 'twin' else 'search',
                   items=[[[eng.value(lo), eng.value(hi)] for lo, hi in it.sched] for it in items])
        if len(samples) < 2:
            samples.append(wit)
        if kind == 'twin':
            twin[0] += 1
            return None
        fails = list(fails or [])
        if aborted:
            fails = [dict(tag='hang', site=kind, detail=f"aborted by {aborted} watchdog")]
        if fails:
            rtags = set(f['tag'] for f in replay(wit))
            for f in fails:
                f['witness'] = wit
                f['reproduced'] = f['tag'] in rtags
                f['replay_tags'] = sorted(rtags)
        return fails

    st = explore(fn, on_path, budget_s=job.get('budget', 1500), tick_cap=3000, path_wall_s=20, max_fail=3,
                 **common.split_args(job))
    st['samples'] = samples
    if kind == 'twin' and job.get('_stop_depth') is None and not job.get('_prefix'):
        st['twin_reached'] = twin[0] > 0
    return dict(st)


def jobs(tier, seed):
    out = []
    maxsum = 7 if tier == 'quick' else 8
    vectors = []
    for n in range(1, 4):
        for v in itertools.product([1, 2, 3], repeat=n):
            if sum(v) <= maxsum:
                vectors.append(v)
    if tier != 'quick':
        vectors += [(2, 2, 2, 2), (1, 1, 1, 1), (2, 2, 2, 1), (3, 2, 1, 1), (1, 2, 1, 2)]
    else:
        vectors += [(1, 1, 1, 1), (2, 1, 1, 1)]
    for v in vectors:
        for kind in ('search', 'sort', 'min', 'distinct'):
            w = 1
            for x in v:
                w *= (x + 1)
            j = dict(kind=kind, lengths=list(v), weight=w * (3 if kind in ('search', 'distinct') else 1))
            if len(v) >= 4 or sum(v) >= 8:
                j['split_depth'] = 12
                j['budget'] = 3000
            if kind == 'distinct' and tuple(v) == (2, 2, 2, 2):
                continue          # not exhaustible in 1500 s on one core (measured); (2,2,2,1) and (3,2,1,1) stay
            out.append(j)
    out.append(dict(kind='search', lengths=[], weight=0))
    out.append(dict(kind='min', lengths=[], weight=0))
    out.append(dict(kind='sort', lengths=[], weight=0))
    out.append(dict(kind='twin', lengths=[2, 2], weight=1))
    return out


def bounds_text(tier):
    return (f"every collection of 1..3 items with schedule lengths in {{1,2,3}} summing to <= {7 if tier == 'quick' else 8} "
            "(+ 4-item vectors), x {search, sort, min_bounded, make_distinct}; every end point of every interval is a "
            "symbolic integer >= 0, so ties, identical intervals, already-definitive items, touching intervals and one-sided "
            "slow convergence are all inside; termination cap 400 search steps / 3000 item tightenings per path")


def pre(tier, seed):
    from .. import conformance
    install()
    n, errs = conformance.interval_tree(seed)
    return dict(errors=["interval_tree: " + e for e in errs[:3]], info=dict(interval_tree=n), conformance_cases=n)
