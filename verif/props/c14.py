"""C14 -- the command line honours its option spellings (reduced claim, see DESIGN.md).

main() is one 300-line function doing argparse, logging and file I/O; it is not executed symbolically as a whole.
On every run the harness slices it from the AST of /repo/graphtage/__main__.py:
  (s0) the argparse construction (exec'd to obtain the real parser),
  (s1) the statements assigning from_mime / to_mime,
  (s2) the `if args.dict_strategy ...` chain assigning allow_key_edits / auto_match_keys,
  (s3) the BuildOptions(...) call,
  (s4) the printer `options={...}` dict,
and runs the slices under symx with every boolean flag a symbolic bool and every presence/choice option an engine choice
point.  If a slice cannot be located the check is inconclusive (exit 2).
"""
import ast
import itertools
import os
import types

import z3

from .. import common
from ..symx.core import Engine, explore, B, SBool, Unsupported, sym_and, sym_or, sym_not

PROP = "C14"
SRC = os.path.join(common.REPO, 'graphtage', '__main__.py')

META = dict(
    functions=["graphtage.__main__.main: argparse construction (executed), from_mime/to_mime resolution, dict-strategy chain, "
               "BuildOptions(...) call, printer options dict (AST slices, re-extracted each run)", "graphtage.get_filetype"],
    stubs=["args namespace built by the harness (presence of an option = engine choice, boolean flags = symbolic bools)"],
    assumptions=["argparse's mutual-exclusion groups hold (the real parser is executed to confirm the groups and the aliases)"],
    files=["graphtage/__main__.py", "graphtage/graphtage.py"],
    outside=["equality of the text printed by the command and by the library (needs files and stdout)", "logging / colour / "
             "terminal detection"],
)


class Slices:
    def __init__(self):
        src = open(SRC).read()
        tree = ast.parse(src)
        main = next((n for n in tree.body if isinstance(n, ast.FunctionDef) and n.name == 'main'), None)
        if main is None:
            raise Unsupported("main() not found in __main__.py")
        self.main = main
        body = main.body

        def assigns(stmt, name):
            return any(isinstance(n, ast.Assign) and any(isinstance(t, ast.Name) and t.id == name for t in n.targets)
                       for n in ast.walk(stmt))
        # s0: parser construction = statements from `parser = ...` up to (excluding) the first statement mentioning argv
        start = next((i for i, st in enumerate(body) if assigns(st, 'parser')), None)
        stop = next((i for i, st in enumerate(body) if any(isinstance(n, ast.Name) and n.id == 'argv' for n in ast.walk(st))
                     and not isinstance(st, ast.FunctionDef)), None)
        if start is None or stop is None or stop <= start:
            raise Unsupported("argparse construction not located")
        self.parser_stmts = body[start:stop]
        mime_idx = [i for i, st in enumerate(body) if not isinstance(st, (ast.FunctionDef, ast.With, ast.Try))
                    and (assigns(st, 'from_mime') or assigns(st, 'to_mime'))]
        if len(mime_idx) < 1:
            raise Unsupported("from_mime/to_mime resolution not located")
        opt_idx = next((i for i, st in enumerate(body) if assigns(st, 'options') and any(
            isinstance(n, ast.Attribute) and n.attr == 'BuildOptions' for n in ast.walk(st))), None)
        if opt_idx is None or opt_idx < mime_idx[-1]:
            raise Unsupported("BuildOptions call not located after the MIME resolution")
        # the whole contiguous region from the first MIME-resolution statement to the BuildOptions call is executed, so a
        # refactoring inside the region (helper variables, reordered branches) does not break the slice
        self.region = body[mime_idx[0]:opt_idx + 1]
        if not any(assigns(st, 'allow_key_edits') for st in self.region):
            raise Unsupported("dict-strategy handling not located between MIME resolution and BuildOptions")
        self.printer_dict = None
        for n in ast.walk(main):
            if isinstance(n, ast.Call):
                for kw in n.keywords:
                    if kw.arg == 'options' and isinstance(kw.value, ast.Dict) and any(
                            isinstance(k, ast.Constant) and k.value == 'join_lists' for k in kw.value.keys):
                        self.printer_dict = kw.value
        if self.printer_dict is None:
            raise Unsupported("printer options dict not located")

    def describe(self):
        return dict(parser=f"lines {self.parser_stmts[0].lineno}-{self.parser_stmts[-1].end_lineno}",
                    region=f"lines {self.region[0].lineno}-{self.region[-1].end_lineno} (MIME resolution .. BuildOptions)",
                    printer_dict=f"{self.printer_dict.lineno}-{self.printer_dict.end_lineno}")

    def _exec(self, stmts, env):
        mod = ast.Module(body=list(stmts), type_ignores=[])
        ast.fix_missing_locations(mod)
        exec(compile(mod, SRC, 'exec'), env)
        return env

    def env(self):
        import graphtage
        import argparse
        import logging
        import sys
        import graphtage.__main__ as gm
        env = dict(vars(gm))
        env.update(graphtage=graphtage, argparse=argparse, logging=logging, sys=sys)
        return env

    def make_parser(self):
        env = self._exec(self.parser_stmts, self.env())
        return env['parser']

    def resolve(self, args):
        env = self.env()
        env['args'] = args
        self._exec(self.region, env)
        pd = eval(compile(ast.Expression(self.printer_dict), SRC, 'eval'), env)
        return dict(from_mime=env.get('from_mime'), to_mime=env.get('to_mime'), allow_key_edits=env.get('allow_key_edits'),
                    auto_match_keys=env.get('auto_match_keys'), options=env.get('options'), printer=pd)


_S = [None]


def slices():
    if _S[0] is None:
        _S[0] = Slices()
    return _S[0]


FLAGS = ['no_key_edits', 'no_list_edits', 'no_list_edits_when_same_length', 'condensed', 'join_lists', 'join_dict_items']


def typenames():
    import graphtage
    return sorted(graphtage.FILETYPES_BY_TYPENAME.keys())


def check_args(args, given):
    """runs the slices on an args namespace; `given` records what the harness put in.  Returns failure list."""
    import graphtage
    fails = []
    try:
        r = slices().resolve(args)
    except (AttributeError, TypeError, ValueError, KeyError, NameError) as ex:
        return [dict(tag='exception:' + type(ex).__name__, site='main() slice', detail=str(ex)[:160])]
    for side in ('from', 'to'):
        want = given[side + '_mime']
        got = r[side + '_mime']
        if got != want:
            fails.append(dict(tag=f'{side}-type-not-honoured', site='main(): %s_mime' % side, detail=f"explicit {want!r}, resolved {got!r}"))
    strategy = given['dict_strategy'] or None
    nk = args.no_key_edits
    if strategy is None:
        want_allow = sym_not(nk)
        want_auto = sym_not(nk)
    else:
        want_allow = strategy != 'none'
        want_auto = strategy == 'auto'
    if not B(_eq(r['allow_key_edits'], want_allow)) or not B(_eq(r['auto_match_keys'], want_auto)):
        fails.append(dict(tag='dict-strategy-not-honoured', site='main(): dict strategy', detail=f"strategy={strategy}"))
    o = r['options']
    pairs = [(o.allow_key_edits, r['allow_key_edits']), (o.auto_match_keys, r['auto_match_keys']),
             (o.allow_list_edits, sym_not(args.no_list_edits)),
             (o.allow_list_edits_when_same_length, sym_not(args.no_list_edits_when_same_length))]
    if not all(B(_eq(a, b)) for a, b in pairs):
        fails.append(dict(tag='build-options-wrong', site='main(): BuildOptions', detail=None))
    p = r['printer']
    if not B(_eq(p.get('join_lists'), sym_or(args.condensed, args.join_lists))) or \
            not B(_eq(p.get('join_dict_items'), sym_or(args.condensed, args.join_dict_items))):
        fails.append(dict(tag='condensed-alias-wrong', site='main(): printer options', detail=None))
    return fails


def _eq(a, b):
    if isinstance(a, SBool) or isinstance(b, SBool):
        za = a.e if isinstance(a, SBool) else z3.BoolVal(bool(a))
        zb = b.e if isinstance(b, SBool) else z3.BoolVal(bool(b))
        from ..symx.core import _wrapb
        return _wrapb(za == zb)
    return bool(a) == bool(b)


def build_args(pick, flag):
    """pick(n, label) -> choice; flag(name) -> bool-like.  Returns (args namespace, given dict)."""
    import graphtage
    tns = typenames()
    mimes = sorted(graphtage.FILETYPES_BY_MIME.keys())
    ns = types.SimpleNamespace()
    given = {}
    for side in ('from', 'to'):
        setattr(ns, side + '_mime', None)
        for t in tns:
            setattr(ns, f'{side}_{t}', None)
        how = pick(3, side + '-how')          # 0: nothing given, 1: --side-mime M, 2: --side-TYPE  (argparse: mutually exclusive)
        if how == 0:
            given[side + '_mime'] = None
        elif how == 1:
            m = mimes[pick(len(mimes), side + '-mime')]
            setattr(ns, side + '_mime', m)
            given[side + '_mime'] = m
        else:
            t = tns[pick(len(tns), side + '-type')]
            m = graphtage.FILETYPES_BY_TYPENAME[t].default_mimetype
            setattr(ns, f'{side}_{t}', m)
            given[side + '_mime'] = m
    ds = [None, 'auto', 'match', 'none'][pick(4, 'dict-strategy')]
    ns.dict_strategy = ds
    given['dict_strategy'] = ds
    ns.match_if = None
    ns.match_unless = None
    for f in FLAGS:
        setattr(ns, f, flag(f))
    if ds is not None:
        ns.no_key_edits = False         # argparse: --dict-strategy and -k are mutually exclusive
    return ns, given


def run_job(job):
    samples = []
    reached = [0]
    if job['kind'] == 'parser':
        return run_parser_job()
    if job['kind'] == 'filetype':
        return run_filetype_job()

    def fn(eng):
        picks = eng.notes.setdefault('picks', [])

        def pick(n, label):
            k = eng.choose(n)
            picks.append(k)
            return k
        flags = eng.notes.setdefault('flags', {})

        def flag(name):
            b = eng.fresh_bool(name)
            flags[name] = b
            return b
        args, given = build_args(pick, flag)
        if job.get('from_how') is not None and picks[0] != job['from_how']:
            from ..symx.core import Infeasible
            raise Infeasible()
        eng.notes['given'] = given
        return check_args(args, given)

    def on_path(eng, fails, aborted):
        reached[0] += 1
        wit = dict(picks=list(eng.notes['picks']), flags={k: bool(eng.value(v)) for k, v in eng.notes['flags'].items()})
        if len(samples) < 2:
            samples.append(dict(wit, given=eng.notes.get('given')))
        fails = list(fails or [])
        if fails:
            rtags = set(f['tag'] for f in replay(wit))
            for f in fails:
                f['witness'] = wit
                f['reproduced'] = f['tag'] in rtags
                f['replay_tags'] = sorted(rtags)
        return fails
    st = explore(fn, on_path, budget_s=1200, max_fail=20)
    st['samples'] = samples
    st['twin_reached'] = reached[0] > 0
    return dict(st)


def replay(w):
    saved = Engine.cur
    Engine.cur = None
    try:
        it = iter(w['picks'])
        args, given = build_args(lambda n, label: next(it), lambda name: w['flags'][name])
        return check_args(args, given)
    finally:
        Engine.cur = saved


def replay_witness(w):
    if 'argv' in w:
        return parser_case(w)
    r = replay(w)
    return ', '.join(sorted(set(f['tag'] for f in r))) if r else None


# ---------------------------------------------------------------- concrete jobs on the real parser / get_filetype
def alias_cases():
    import graphtage
    cases = [(['-k'], ['--no-key-edits']), (['-l'], ['--no-list-edits']), (['-ll'], ['--no-list-edits-when-same-length']),
             (['-j'], ['--condensed']), (['-jl'], ['--join-lists']), (['-jd'], ['--join-dict-items']),
             (['-ds', 'none'], ['--dict-strategy', 'none']), (['-e'], ['--only-edits']), (['-d'], ['--edit-digest']),
             (['-c'], ['--color'])]
    for t, ft in sorted(graphtage.FILETYPES_BY_TYPENAME.items()):
        cases.append(([f'--from-{t}'], ['--from-mime', ft.default_mimetype]))
        cases.append(([f'--to-{t}'], ['--to-mime', ft.default_mimetype]))
    return cases


def parser_case(w):
    p = slices().make_parser()
    a = vars(p.parse_args(w['argv'][0] + ['x', 'y']))
    b = vars(p.parse_args(w['argv'][1] + ['x', 'y']))
    if w.get('typed'):
        # --side-TYPE must carry the same MIME as --side-mime <mime of TYPE>
        side, t = w['typed']
        return None if a.get(f'{side}_{t}') == b.get(f'{side}_mime') and a.get(f'{side}_{t}') is not None else \
            f"{w['argv'][0]} gives {a.get(f'{side}_{t}')!r}, {w['argv'][1]} gives {b.get(f'{side}_mime')!r}"
    return None if a == b else f"{w['argv'][0]} and {w['argv'][1]} parse differently"


def run_parser_job():
    fails = []
    n = 0
    samples = []
    try:
        for x, y in alias_cases():
            n += 1
            w = dict(argv=[x, y])
            if x[0].startswith('--from-') or x[0].startswith('--to-'):
                side = 'from' if x[0].startswith('--from-') else 'to'
                w['typed'] = [side, x[0].split('-', 3)[3]]
            r = parser_case(w)
            if len(samples) < 2:
                samples.append(w)
            if r:
                fails.append(dict(tag='alias-differs', site='argparse', detail=r, witness=w, reproduced=True, replay_tags=[r]))
        # mutual exclusion groups exist as assumed
        p = slices().make_parser()
        for argv in (['-k', '-ds', 'auto'], ['--from-json', '--from-mime', 'application/json'], ['-l', '-ll']):
            n += 1
            try:
                import contextlib, io
                with contextlib.redirect_stderr(io.StringIO()):
                    p.parse_args(argv + ['x', 'y'])
                fails.append(dict(tag='not-mutually-exclusive', site='argparse', detail=str(argv),
                                  witness=dict(argv=[argv, argv]), reproduced=True, replay_tags=[]))
            except SystemExit:
                pass
    except Unsupported:
        raise
    return dict(paths=n, queries=0, infeasible=0, aborted=0, solver_s=0.0, exhausted=True, unsupported=None, failures=fails,
                samples=samples, twin_reached=n > 0, extra=dict(concrete_parser_cases=n))


def run_filetype_job():
    import graphtage
    fails = []
    n = 0
    samples = []
    exts = ['.json', '.yml', '.xml', '.csv', '.plist', '.unknown', '']
    for mime, ft in sorted(graphtage.FILETYPES_BY_MIME.items()):
        for ext in exts:
            n += 1
            try:
                got = graphtage.get_filetype('file' + ext, mime)
            except ValueError as ex:
                got = ex
            if got is not ft:
                w = dict(argv=[[mime], [ext]])
                fails.append(dict(tag='explicit-mime-not-used', site='get_filetype', detail=f"{mime} with path file{ext}: {got}",
                                  witness=w, reproduced=True, replay_tags=[]))
            elif len(samples) < 1:
                samples.append(dict(mime=mime, path='file' + ext, filetype=ft.name))
    return dict(paths=n, queries=0, infeasible=0, aborted=0, solver_s=0.0, exhausted=True, unsupported=None, failures=fails,
                samples=samples, twin_reached=True, extra=dict(concrete_get_filetype_cases=n))


def jobs(tier, seed):
    return [dict(kind='slice', from_how=h, weight=10) for h in (0, 1, 2)] + [dict(kind='parser', weight=1), dict(kind='filetype', weight=1)]


def bounds_text(tier):
    return ("whole option space of the sliced statements: for each file {no type, --X-mime with every registered MIME, --X-TYPE for every "
            "registered type} x dict strategy {absent, auto, match, none} x 6 boolean flags (symbolic) ; all alias pairs on the real "
            "parser; get_filetype for every registered MIME x 7 path extensions")


def pre(tier, seed):
    try:
        s = slices()
        return dict(errors=[], info=dict(slices=s.describe()), conformance_cases=0)
    except Unsupported as u:
        return dict(errors=[str(u)], info={}, conformance_cases=0)
