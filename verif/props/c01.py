"""C01 -- the edit script turns the first document into the second (accounting at every level, list order kept,
annotations of the diff tree agree with the script)."""
from .. import tree_harness as th
from ..tree_harness import guarded

PROP = "C01"


@guarded
def body(A, Bn, objA, objB, job):
    fails = []
    d = A.diff(Bn)
    top = d.edit_list[0] if d.edit_list else None       # the edit TreeNode.diff computed for the root
    if top is None:
        return [dict(tag='no-edit', site='TreeNode.diff', detail=None)]
    s = th.extract(top)
    th.check_accounting(s, fails)
    th.check_annotations(d, s, fails)
    return fails


def run_job(job):
    return th.run_tree_job(job, body, site_default='TreeNode.diff')


def replay_witness(w):
    r = th.replay(w, body)
    return ', '.join(sorted(set(f['tag'] + '@' + str(f['site']) for f in r))) if r else None


def jobs(tier, seed):
    js = th.tree_jobs(tier)
    js += [dict(dict(alpha=3), **j) for j in th.KNOWN_DUP_JOBS]
    return js

META = dict(functions=th.TREE_FUNCTIONS, stubs=th.TREE_STUBS, assumptions=th.TREE_ASSUME, files=th.TREE_FILES)
bounds_text = th.tree_bounds_text
REGIONS = dict(mset_duplicates=lambda w, f: th.matcher_collapse_region(w))


def pre(tier, seed):
    from .. import conformance
    return conformance.tree_pre(seed)
