"""C11 -- string changes are minimal: the characters shown as unchanged form a longest common subsequence.

Real code executed: StringNode.edits, StringEdit, string_edit_distance, EditDistance (prefix/suffix trimming, fringe
construction, _best_match, make_distinct, back-trace) with insert/remove penalty 0 on per-character StringNodes.
Symbolic: every character of both strings (alphabet size >= total length, so every equality pattern is realisable and
the verdict covers all strings of those lengths over any alphabet).  Reference: LCS as a z3 If-DP.
"""
import z3

from .. import common, tree_harness as th
from ..leaves import Pay, fresh_pay, fresh_wide_pay
from ..symx.core import Engine, explore, B, SInt, SBool, _wrapi, Unsupported

PROP = "C11"

META = dict(
    functions=["graphtage.graphtage.StringNode.edits", "StringEdit", "string_edit_distance", "levenshtein.EditDistance.__init__/"
               "tighten_bounds/_next_fringe/_add_node/_best_match/bounds/edits/_cleanup", "bounds.make_distinct",
               "edits.Match/Insert/Remove", "FibonacciHeap (size heap in EditDistance.__init__)"],
    stubs=th.TREE_STUBS,
    assumptions=["alphabet size = len(a)+len(b): every equality pattern between the characters is realisable, so the verdict "
                 "holds for all strings of these lengths over any alphabet"],
    files=["graphtage/graphtage.py", "graphtage/levenshtein.py", "graphtage/bounds.py", "graphtage/edits.py"],
    outside=["strings longer than the bound", "bytes objects", "4-byte code points and surrogates (widths 1-3 are in the domain)"],
)


def lcs_expr(a, b):
    """length of a longest common subsequence as a (possibly symbolic) integer"""
    n, m = len(a), len(b)
    T = [[0] * (m + 1) for _ in range(n + 1)]
    for i in range(1, n + 1):
        for j in range(1, m + 1):
            eq = (a[i - 1] == b[j - 1])
            up, left, diag = T[i - 1][j], T[i][j - 1], T[i - 1][j - 1] + 1
            mx = _max(up, left)
            if isinstance(eq, bool):
                T[i][j] = diag if eq else mx
            else:
                T[i][j] = _wrapi(z3.If(eq.e, _z(diag), _z(mx)))
    return T[n][m]


def _z(x):
    return x.e if isinstance(x, SInt) else z3.IntVal(x)


def _max(x, y):
    if isinstance(x, int) and isinstance(y, int):
        return max(x, y)
    return _wrapi(z3.If(_z(x) >= _z(y), _z(x), _z(y)))


def body(a, b):
    """a, b: str or Pay.  Returns failure list."""
    from graphtage import StringNode, StringEdit
    from graphtage.edits import Match, Insert, Remove
    fails = []
    try:
        A, Bn = StringNode(a), StringNode(b)
        e = A.edits(Bn)
        th.drive_like_diff(e)
        th.tighten_all(e)
        if isinstance(e, StringEdit):
            subs = list(e.edit_distance.edits())
            froms = [s.from_node.object for s in subs if not isinstance(s, Insert)]
            tos = [(s.to_insert.object if isinstance(s, Insert) else s.to_node.object) for s in subs if not isinstance(s, Remove)]
            if len(froms) != len(a) or not all(x is y or B(x == y) for x, y in zip(froms, list(a))):
                fails.append(dict(tag='from-characters', site='StringEdit', detail=f"{len(froms)} vs {len(a)}"))
            if len(tos) != len(b) or not all(x is y or B(x == y) for x, y in zip(tos, list(b))):
                fails.append(dict(tag='to-characters', site='StringEdit', detail=f"{len(tos)} vs {len(b)}"))
            kept = 0
            for s in subs:
                if isinstance(s, Match) and B(s.from_node.object == s.to_node.object):
                    kept += 1
            cost = e.bounds()
            changed = (len(a) - kept) + (len(b) - kept)
        elif isinstance(e, Match):
            c = e.bounds().upper_bound
            if B(c == 0):
                if not B(a == b):
                    fails.append(dict(tag='zero-cost-unequal', site='StringNode.edits'))
                kept = len(a)
            else:
                kept = 0
        else:
            return [dict(tag='unexpected-edit', site=type(e).__name__)]
        want = lcs_expr(list(a), list(b))
        if not B(want == kept):
            fails.append(dict(tag='not-minimal', site=type(e).__name__,
                              detail=f"kept {kept} characters, LCS is {th.val(want)}"))
    except th.REAL_ERRORS as ex:
        fails.append(dict(tag='exception:' + type(ex).__name__, site='StringNode.edits', detail=str(ex)[:160]))
    return fails


def replay(w):
    saved = Engine.cur
    Engine.cur = None
    try:
        with common.PATCHES.pristine():
            import graphtage.levenshtein as lev
            from .. import stubs
            old = lev.DEFAULT_PRINTER
            lev.DEFAULT_PRINTER = stubs.StubPrinter(False)
            try:
                with common.wall_limit(15):
                    return body(w['a'], w['b'])
            except common.Timeout:
                return [dict(tag='hang', site='StringNode.edits')]
            finally:
                lev.DEFAULT_PRINTER = old
    finally:
        Engine.cur = saved


def replay_witness(w):
    r = replay(w)
    return ', '.join(sorted(set(f['tag'] for f in r))) if r else None


def run_job(job):
    th.install()
    n, m = job['lens']
    alpha = max(1, n + m)
    samples = []
    reached = [0]

    def fn(eng):
        if job.get('wide'):
            a = fresh_wide_pay(eng, 'a', n, alpha)
            b = fresh_wide_pay(eng, 'b', m, alpha)
        else:
            a = fresh_pay(eng, 'a', n, 'str', alpha)
            b = fresh_pay(eng, 'b', m, 'str', alpha)
        eng.notes['ab'] = (a, b)
        return body(a, b)

    def on_path(eng, fails, aborted):
        a, b = eng.notes['ab']
        wit = dict(a=a.concrete(eng), b=b.concrete(eng))
        if len(samples) < 2:
            samples.append(wit)
        if not aborted:
            reached[0] += 1
        fails = list(fails or [])
        if aborted:
            fails = [dict(tag='hang', site='StringNode.edits', detail=f"aborted by {aborted}")]
        if fails:
            rtags = set(f['tag'] for f in replay(wit))
            for f in fails:
                f['witness'] = wit
                f['reproduced'] = f['tag'] in rtags
                f['replay_tags'] = sorted(rtags)
        return fails

    st = explore(fn, on_path, budget_s=job.get('budget', 1500), path_wall_s=20, tick_cap=40000, max_fail=3,
                 **common.split_args(job))
    st['samples'] = samples
    if job.get('_stop_depth') is None and not job.get('_prefix'):
        st['twin_reached'] = reached[0] > 0
    return dict(st)


def jobs(tier, seed):
    N = 4 if tier == 'quick' else 5
    out = []
    pairs = [(n, m) for n in range(N + 1) for m in range(N + 1)]
    pairs += [(N + 1, k) for k in range(4)] + [(k, N + 1) for k in range(4)]
    if tier != 'quick':
        pairs += [(7, 2), (2, 7), (7, 1), (1, 7), (8, 1), (1, 8)]
    for n, m in pairs:
        j = dict(lens=[n, m], weight=(n + 1) * (m + 1))
        if n + m >= 8:
            j['split_depth'] = 8 if n + m < 10 else 11
        out.append(j)
    # the same question over characters of UTF-8 width 1, 2 and 3 (minimality is counted in characters, never in bytes)
    W = 3 if tier == 'quick' else 4
    for n in range(1, W + 1):
        for m in range(1, W + 1):
            out.append(dict(lens=[n, m], wide=True, weight=(n + 1) * (m + 1)))
    return out


def bounds_text(tier):
    N = 4 if tier == 'quick' else 5
    return (f"all string pairs with len(a), len(b) <= {N}, plus {N + 1}+k and k+{N + 1} for k <= 3"
            + ("" if tier == 'quick' else ", plus 7+2, 2+7, 7+1, 1+7, 8+1, 1+8") +
            "; every character symbolic over an alphabet of len(a)+len(b) letters; driven through StringNode.edits "
            "(the path every diff uses); plus all pairs with 1 <= len(a), len(b) <= " + ("3" if tier == 'quick' else "4") +
            " over three blocks of code points with UTF-8 widths 1, 2 and 3 (len(a)+len(b) characters per block)")


def pre(tier, seed):
    from .. import conformance
    th.install()
    n, errs = conformance.interval_tree(seed, 100)
    # reference model sanity: LCS DP on concrete strings against brute force
    import itertools
    bad = []
    cases = 0
    for x in map(''.join, itertools.product('ab', repeat=3)):
        for y in map(''.join, itertools.product('ab', repeat=3)):
            cases += 1
            best = 0
            for k in range(3, 0, -1):
                subs = set(''.join(c) for c in itertools.combinations(x, k))
                if any(''.join(c) in subs for c in itertools.combinations(y, k)):
                    best = k
                    break
            if lcs_expr(list(x), list(y)) != best:
                bad.append(f"lcs({x},{y})")
    return dict(errors=["interval_tree: " + e for e in errs[:3]] + bad[:3], info=dict(interval_tree=n, lcs_reference=cases),
                conformance_cases=n + cases)
