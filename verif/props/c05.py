"""C05 -- results do not depend on how the edit API is driven or on status settings.

Self-composition: the same symbolic document pair is diffed by the reference driver (the loop of TreeNode.diff) and by a
test driver that first applies a prefix of public edit operations (to the top-level edit, or to a nested edit reached
through edits()) and then the same loop.  No exception, equal final cost, equal script.  quiet on/off is a job parameter.
"""
import itertools

from .. import tree_harness as th
from ..tree_harness import guarded, B, L, I, D
from ..symx.core import Engine

PROP = "C05"
OPS = ['bounds', 'tighten', 'is_complete', 'valid', 'edits', 'has_non_zero_cost']


def apply_op(e, op):
    if op == 'bounds':
        e.bounds()
    elif op == 'tighten':
        e.tighten_bounds()
    elif op == 'is_complete':
        e.is_complete()
    elif op == 'valid':
        _ = e.valid
    elif op == 'edits':
        if hasattr(e, 'edits'):
            return list(e.edits())
    elif op == 'has_non_zero_cost':
        e.has_non_zero_cost()
    return None


def sig(s):
    return (s.cls, s.kind, id(s.f) if s.f is not None else None, id(s.t) if s.t is not None else None,
            tuple(sig(c) for c in s.subs) if s.subs is not None else None)


def finish(e):
    th.drive_like_diff(e)
    th.tighten_all(e)
    b = e.bounds()
    return b, th.extract(e)


@guarded
def body(A, Bn, objA, objB, job):
    fails = []
    ex = job.get('extra') or {}
    prefix = ex.get('prefix', [])
    nested = ex.get('nested')
    ref_b, ref_s = finish(A.edits(Bn))
    e = A.edits(Bn)
    target = e
    if nested is not None:
        subs = apply_op(e, 'edits') or []
        subs = [s for s in subs if hasattr(s, 'tighten_bounds')]
        if not subs:
            return []
        target = subs[nested % len(subs)]
    for op in prefix:
        apply_op(target, op)
    b, s = finish(e)
    if not B(b.lower_bound == b.upper_bound):
        fails.append(dict(tag='not-definitive-after-drive', site=type(e).__name__, detail=None))
    elif not B(b.upper_bound == ref_b.upper_bound):
        fails.append(dict(tag='cost-depends-on-driver', site=type(e).__name__,
                          detail=f"{th.val(b.upper_bound)} vs reference {th.val(ref_b.upper_bound)} after {prefix} nested={nested}"))
    if sig(s) != sig(ref_s):
        fails.append(dict(tag='script-depends-on-driver', site=type(e).__name__, detail=f"after {prefix} nested={nested}"))
    return fails


def run_job(job):
    return th.run_tree_job(job, body, site_default='edit API', hang_tags=True, quiet=False)


def replay_witness(w):
    r = th.replay(w, body)
    return ', '.join(sorted(set(f['tag'] + '@' + str(f['site']) for f in r))) if r else None


def prefixes(tier):
    out = [[]]
    for n in (1, 2):
        out += [list(p) for p in itertools.product(OPS, repeat=n)]
    active = ['bounds', 'tighten', 'edits', 'has_non_zero_cost']
    out += [list(p) for p in itertools.product(active, repeat=3)]
    if tier != 'quick':
        out += [list(p) for p in itertools.product(['tighten', 'edits', 'bounds'], repeat=4)]
    out.append(['tighten'] * 4)
    out.append(['tighten'] * 5)
    out.append(['tighten'] * 6)
    return out


SHAPES = [
    ('LL-2-2', L(L(I(), I(2))), L(L(I(2), I()))),
    ('LiL', L(I(), L(I(), I(2))), L(I(), L(I(2), I()))),       # the last matrix cell of the outer list edit is itself a list edit
    ('LLs', L(L(I(), I()), I()), L(L(I(), I()), I())),         # a non-final matrix cell is a list edit (quiet-mode fringe loop)
    ('LL-11-11', L(L(I(2)), L(I())), L(L(I()), L(I(2)))),
    ('LD', L(D(I()), I()), L(D(I(2)), I(2))),
    ('DL2c', ('dict', [('p', L(I(), I(2))), ('q', L(I()))]), ('dict', [('r', L(I(2))), ('s', L(I(), I()))])),   # concrete, unshared keys
    ('DL2', D(L(I(), I(2)), L(I())), D(L(I(2)), L(I(), I()))),
    ('DD', D(D(I()), I(2)), D(D(I(2)), D(I()))),
    ('D22', D(I(), I(2)), D(I(2), I())),
    ('L22', L(I(), I(2)), L(I(2), I())),
]


def jobs(tier, seed):
    out = []
    shapes = [x for x in SHAPES if x[0] != 'DL2'] if tier != 'quick' else [SHAPES[1], SHAPES[2], SHAPES[4], SHAPES[5]]      # LiL, LLs, LD, DL2c
    # (DL2 with symbolic keys: ~1.4k paths per prefix, ~100k paths per strategy -- not run; DL2c is its concrete-key version)
    for name, A, B_ in shapes:
        for quiet in (False, True):
            if tier == 'quick' and quiet and not name.startswith(('Li', 'LLs')):
                continue         # the quiet flag only changes control flow inside EditDistance.tighten_bounds
            for st in ('auto',) if (tier == 'quick' or 'D' not in name) else ('auto', 'none'):
                for pre in prefixes(tier):
                    if tier == 'quick' and name == 'LLs' and len(pre) > 1:
                        continue
                    if tier == 'quick' and len(pre) == 3 and (quiet or not name.startswith('Li')):
                        continue
                    out.append(dict(fam=name, A=A, B=B_, dict=st, list='on', quiet=quiet, weight=len(pre) + 3, alpha=3,
                                    extra=dict(prefix=pre, nested=None)))
                if tier == 'quick' and quiet:
                    continue
                for nested in (0, 1):
                    for pre in [p for p in prefixes('quick') if 1 <= len(p) <= (1 if tier == 'quick' else 2)]:
                        out.append(dict(fam=name, A=A, B=B_, dict=st, list='on', quiet=quiet, weight=len(pre) + 4, alpha=3,
                                        extra=dict(prefix=pre, nested=nested)))
                    if tier == 'quick':
                        for pre in (['tighten', 'tighten'], ['edits', 'tighten'], ['tighten', 'edits'], ['bounds', 'tighten']):
                            out.append(dict(fam=name, A=A, B=B_, dict=st, list='on', quiet=quiet, weight=6, alpha=3,
                                            extra=dict(prefix=pre, nested=nested)))
    return out


META = dict(functions=th.TREE_FUNCTIONS + ["public edit API: bounds / tighten_bounds / is_complete / valid / edits / has_non_zero_cost on "
                                            "EditDistance, MultiSetEdit, KeyValuePairEdit, FixedKeyDictNodeEdit, EditCollection, Match",
                                            "DEFAULT_PRINTER.quiet branches in EditDistance.tighten_bounds"],
            stubs=th.TREE_STUBS, assumptions=th.TREE_ASSUME, files=th.TREE_FILES + ["graphtage/printer.py"],
            outside=["colour on/off (rendering is C06/C13's subject; it never runs before the script is final)",
                     "prefixes longer than the bound"])
REGIONS = dict(mset_duplicates=lambda w, f: th.matcher_collapse_region(w))


def bounds_text(tier):
    return ("4 (thorough 9) nested document shapes (list of lists, list of mappings, mapping of lists, mapping of mappings) with all "
            "leaf values symbolic x every operation prefix of length <= 2 over the 6 public operations (quick: length-3 prefixes over "
            "{bounds, tighten_bounds, edits, has_non_zero_cost} and quiet on/off only on the list-of-lists shape; thorough: all length-3, "
            "active length-4, quiet on/off everywhere), 4-6 consecutive tighten_bounds; applied to the top-level edit and to the first / "
            "second nested edit; then the TreeNode.diff loop")


def pre(tier, seed):
    from .. import conformance
    return conformance.tree_pre(seed)
