"""C08 -- mappings are unordered, lists are ordered (self-composition over key permutations / list transpositions)."""
import itertools

from .. import tree_harness as th
from ..tree_harness import guarded, B, L, I, D
from ..symx.core import Engine

PROP = "C08"


def count_mappings(obj):
    if isinstance(obj, th.PList):
        return count_mappings(obj.root)
    if isinstance(obj, dict):
        return (1 if len(obj) > 1 else 0) + sum(count_mappings(v) for v in obj.values())
    if isinstance(obj, list):
        return sum(count_mappings(c) for c in obj)
    return 0


def permuted(obj, target, gen, counter=None):
    """copy of a Pay-leaved object in which the target-th mapping (DFS order, mappings of >= 2 keys) has its insertion
    order permuted by generator gen (0: swap the first two keys, 1: rotate left).  The two generators generate every
    permutation, and single-mapping moves generate every combination, so invariance under these moves for all documents
    implies invariance under all key permutations at all depths."""
    if counter is None:
        counter = [0]
    if isinstance(obj, th.PList):
        return th.PList(permuted(obj.root, target, gen, counter))
    if isinstance(obj, th.MSet):
        return th.MSet(permuted(c, target, gen, counter) for c in obj)
    if isinstance(obj, list):
        return [permuted(c, target, gen, counter) for c in obj]
    if isinstance(obj, dict):
        items = list(obj.items())
        if len(items) > 1:
            mine = counter[0]
            counter[0] += 1
            if mine == target:
                items = ([items[1], items[0]] + items[2:]) if gen == 0 else (items[1:] + items[:1])
        return {k: permuted(v, target, gen, counter) for k, v in items}
    return obj


def signature(s, out=None, path=()):
    """cost-free description of which keys are paired / removed / inserted at every level (keys identified by payload identity)"""
    from graphtage import KeyValuePairNode
    from graphtage.graphtage import MappingNode
    if out is None:
        out = set()
    if s.subs is None:
        return out
    if isinstance(s.f, MappingNode):
        for c in s.subs:
            def kid(n):
                return id(n.key.object) if isinstance(n, KeyValuePairNode) else ('node', type(n).__name__)
            if c.kind == 'pair':
                out.add((path, 'pair', kid(c.f), kid(c.t)))
            elif c.kind == 'remove':
                out.add((path, 'remove', kid(c.f)))
            else:
                out.add((path, 'insert', kid(c.t)))
    for i, c in enumerate(s.subs):
        sub = path
        from graphtage import KeyValuePairNode as K
        if isinstance(c.f, K):
            sub = path + (id(c.f.key.object),)
        elif c.kind == 'pair':
            sub = path + (i,)
        signature(c, out, sub)
    return out


def run_once(A, Bn):
    d = A.diff(Bn)
    cost = d.edited_cost()
    top = d.edit_list[0]
    return cost, signature(th.extract(top))


@guarded
def body(A, Bn, objA, objB, job):
    fails = []
    kind = (job.get('extra') or {}).get('c08', 'perm')
    opts = th.build_options(job.get('dict', 'auto'), job.get('list', 'on'))
    eng = Engine.cur
    if kind == 'perm':
        na, nb = count_mappings(objA), count_mappings(objB)
        if na + nb == 0:
            return []
        picks = (job.get('extra') or {}).get('picks')
        if eng is not None:
            k = eng.choose(na + nb)
            g = eng.choose(2)
            eng.notes['picks'] = [k, g]
        else:
            k, g = picks if picks else (0, 0)
        if k < na:
            oA2, oB2 = permuted(objA, k, g), objB
        else:
            oA2, oB2 = objA, permuted(objB, k - na, g)
        A2, B2 = th.to_tree(oA2, opts), th.to_tree(oB2, opts)
        c1, s1 = run_once(A, Bn)
        c2, s2 = run_once(A2, B2)
        if not B(c1 == c2):
            fails.append(dict(tag='cost-depends-on-key-order', site='diff', detail=f"{th.val(c1)} vs {th.val(c2)}"))
        if s1 != s2:
            fails.append(dict(tag='pairing-depends-on-key-order', site='diff', detail=f"{len(s1 ^ s2)} differing entries"))
        # a document and its key-permuted copy compare as equal
        if k < na:
            X, Y = th.to_tree(objA, opts), A2
        else:
            X, Y = th.to_tree(objB, opts), B2
        c3, _ = run_once(X, Y)
        if not B(c3 == 0):
            fails.append(dict(tag='permuted-copy-not-equal', site='diff', detail=f"cost {th.val(c3)}"))
        if not isinstance(objA, th.PList) and not B(X == Y):
            fails.append(dict(tag='permuted-copy-eq-false', site='__eq__', detail=None))
    else:
        # lists are ordered: swapping two unequal elements always costs
        xs = list(objA)
        i, j = (job.get('extra') or {})['swap']
        ys = list(xs)
        ys[i], ys[j] = ys[j], ys[i]
        if eng is not None:
            r = th.obj_equal(xs[i], xs[j])
            eng.assume(th.sym_not(r))
        elif th.obj_equal(xs[i], xs[j]):
            return []
        X, Y = th.to_tree(xs, opts), th.to_tree(ys, opts)
        c, _ = run_once(X, Y)
        if not B(c > 0):
            fails.append(dict(tag='list-swap-costs-nothing', site='diff', detail=None))
        if B(X == Y):
            fails.append(dict(tag='list-swap-eq-true', site='__eq__', detail=None))
    return fails


def run_job(job):
    # the permutation chosen on a path becomes part of the witness
    def wrapped(A, Bn, objA, objB, j):
        return body(A, Bn, objA, objB, j)
    st = th.run_tree_job(job, wrapped, site_default='diff', hang_tags=False, witness_extra=lambda eng: dict(
        job.get('extra') or {}, picks=list(eng.notes.get('picks', []))))
    return st


def replay_witness(w):
    r = th.replay(w, body)
    return ', '.join(sorted(set(f['tag'] + '@' + str(f['site']) for f in r))) if r else None


def jobs(tier, seed):
    out = []
    fams = ['dict', 'DL', 'DD', 'LD', 'x-dict', 'plist-DD']
    # thorough = the quick families with value alphabet 4 and the 'match' strategy everywhere (the 5-key / 3-level shapes of the
    # thorough tree tier do not exhaust under three diffs per path: measured, 12 jobs over budget)
    for j in th.tree_jobs('quick', want=fams):
        if tier != 'quick':
            j['alpha'] = 4
        if j['dict'] == 'match' and tier == 'quick' and (j['weight'] > 20 or not j['fam'].startswith('dict')):
            continue
        j['extra'] = dict(c08='perm')
        if j['weight'] >= 7:
            j['split_depth'] = 9
        out.append(j)
    # three-key mappings at depth 2
    out.append(dict(fam='DD-3', A=D(D(I(), I(2), I()), I()), B=D(D(I(2), I()), I(2)), dict='none', list='on', weight=30, extra=dict(c08='perm'), alpha=3, split_depth=9))
    for n in (2, 3):
        for i, j in itertools.combinations(range(n), 2):
            for mode in ('on', 'off', 'same'):
                for pat in ('a', 'c'):
                    A, _ = th.fam_list(n, 0, pat)
                    out.append(dict(fam=f'swap{n}-{i}{j}', A=A, B=('n',), dict='auto', list=mode, weight=3,
                                    extra=dict(c08='swap', swap=[i, j]), alpha=3))
    out.append(dict(fam='swap-nested', A=L(L(I(), I(2)), L(I())), B=('n',), dict='auto', list='on', weight=5,
                    extra=dict(c08='swap', swap=[0, 1]), alpha=3))
    out.append(dict(fam='swap-dicts', A=L(D(I()), D(I(2))), B=('n',), dict='auto', list='on', weight=5,
                    extra=dict(c08='swap', swap=[0, 1]), alpha=3))
    return out


META = dict(functions=th.TREE_FUNCTIONS + ["DictNode.from_dict (canonical sort)", "FixedKeyDictNode.from_dict/_child_edits/__eq__",
                                            "HashableCounter equality", "ListNode.__eq__/edits"],
            stubs=th.TREE_STUBS + ["assignment stub memoised per symbolic table within a path (scipy is a function of its input)"],
            assumptions=th.TREE_ASSUME, files=th.TREE_FILES + ["graphtage/utils.py"])
REGIONS = dict(mset_duplicates=lambda w, f: th.matcher_collapse_region(w))


def bounds_text(tier):
    return ("mappings of <= 3 keys on each side (depth <= 2: dict, dict of list/dict, list of dict, plist of dict) x {auto, none, match}: "
            "one engine-chosen mapping in either document permuted by an engine-chosen generator (swap of the first two keys / rotation; these generate all permutations at all depths), all leaf values symbolic; "
            "lists of 2-3 elements: every transposition of two unequal elements x 3 list modes")


def pre(tier, seed):
    from .. import conformance
    return conformance.tree_pre(seed)
