"""C15 -- minimum-weight assignment is valid and optimal.

Real code executed: graphtage.matching.min_weight_bipartite_matching and get_dtype.  Symbolic: every weight (integers in
the documented range [-2**63, 2**64), or booleans) and, by engine choice, which pairs are missing.
Stubs: numpy.array(weights, dtype) = identity when every entry fits the dtype, OverflowError otherwise (numpy >= 2 for
Python ints); scipy linear_sum_assignment = contract stub (any optimal full assignment of the matrix it is given).
"""
import itertools

import z3

from .. import common, stubs
from ..common import PATCHES
from ..symx.core import (Engine, explore, B, sym_and, sym_or, SInt, SBool, Unsupported, shim_isinstance, shim_type,
                         _wrapi)

PROP = "C15"
LO, HI = -2 ** 63, 2 ** 64 - 1

META = dict(
    functions=["graphtage.matching.min_weight_bipartite_matching", "graphtage.matching.get_dtype",
               "matching.INTEGER_DTYPE_INTERVALS (read from the module at run time)"],
    stubs=["numpy.array(weights, dtype) in graphtage.matching -> identity if every entry fits the dtype else OverflowError",
           "scipy.optimize.linear_sum_assignment -> contract stub (engine-chosen optimal assignment of the given matrix)",
           "type()/isinstance() shims for proxies in graphtage.matching"],
    assumptions=["integer weights lie in the documented range [-2**63, 2**64)", "boolean tables are complete (documented)",
                 "float tables are outside this check (scipy's float64 arithmetic is C code)"],
    files=["graphtage/matching.py"],
    outside=["tables larger than 3x3", "float weights"],
)


class SBit(SInt):
    """a symbolic bool weight: integer 0/1 arithmetic, but type() is bool"""
    __slots__ = ()


def _shim_type(x, *a):
    if not a and isinstance(x, SBit):
        return bool
    return shim_type(x, *a)


class NPStub:
    def __init__(self, real):
        self.real = real

    def __getattr__(self, k):
        return getattr(self.real, k)

    def array(self, weights, dtype=None):
        rows = [list(r) for r in weights]
        if dtype is bool:
            return rows
        if dtype is float:
            raise Unsupported("float table")
        info = self.real.iinfo(dtype)
        lo, hi = int(info.min), int(info.max)
        for r in rows:
            for w in r:
                if B(w < lo) or B(w > hi):
                    raise OverflowError(f"Python integer out of bounds for {dtype}")
        return rows


_inst = [False]


def install():
    if _inst[0]:
        return
    import graphtage.matching as gm
    PATCHES.set(gm, 'np', NPStub(gm.np))
    PATCHES.set(gm, 'linear_sum_assignment', stubs.lsa_contract)
    PATCHES.set(gm, 'type', _shim_type)
    PATCHES.set(gm, 'isinstance', shim_isinstance)
    PATCHES.install()
    _inst[0] = True


def oracle(table, got):
    """table: n x m list with None for missing pairs; got: the function's result.  Returns failure list."""
    fails = []
    n = len(table)
    m = len(table[0]) if n else 0
    if not hasattr(got, 'items'):
        return [dict(tag='not-a-mapping', site='min_weight_bipartite_matching')]
    pairs = []
    for i, v in got.items():
        try:
            j, w = v
        except Exception:   # noqa
            return [dict(tag='bad-entry', site='min_weight_bipartite_matching')]
        try:
            import operator
            i, j = operator.index(i), operator.index(j)      # numpy integers in the real run
        except TypeError:
            return [dict(tag='bad-entry', site='min_weight_bipartite_matching')]
        if not (0 <= i < n and 0 <= j < m):
            fails.append(dict(tag='index-out-of-range', site='min_weight_bipartite_matching', detail=f"({i},{j})"))
            return fails
        pairs.append((i, j, w))
    if len(set(j for _, j, _ in pairs)) != len(pairs):
        fails.append(dict(tag='not-one-to-one', site='min_weight_bipartite_matching'))
    for i, j, w in pairs:
        if table[i][j] is None:
            fails.append(dict(tag='missing-pair-used', site='min_weight_bipartite_matching', detail=f"({i},{j})"))
        elif not B(w == table[i][j]):
            fails.append(dict(tag='wrong-weight-reported', site='min_weight_bipartite_matching', detail=f"({i},{j})"))
    complete = all(x is not None for r in table for x in r)
    if complete and n and m and not fails:
        if len(pairs) != min(n, m):
            fails.append(dict(tag='not-maximum-cardinality', site='min_weight_bipartite_matching',
                              detail=f"{len(pairs)} pairs for {n}x{m}"))
        else:
            total = 0
            for i, j, _ in pairs:
                total = total + table[i][j]
            conds = []
            for c in stubs._assignments(n, m):
                t = 0
                for i, j in c:
                    t = t + table[i][j]
                conds.append(total <= t)
            if not B(sym_and(*conds)):
                fails.append(dict(tag='not-optimal', site='min_weight_bipartite_matching'))
    return fails


def call(table):
    import graphtage.matching as gm
    n = len(table)
    m = len(table[0]) if n else 0
    try:
        got = gm.min_weight_bipartite_matching(list(range(n)), list(range(m)), lambda i, j: table[i][j])
    except (OverflowError, ValueError, TypeError, AssertionError, IndexError, KeyError, AttributeError, ZeroDivisionError) as ex:
        return [dict(tag='exception:' + type(ex).__name__, site='min_weight_bipartite_matching', detail=str(ex)[:160])]
    return oracle(table, got)


def replay(w):
    saved = Engine.cur
    Engine.cur = None
    try:
        with PATCHES.pristine():
            if w['kind'] == 'dtype':
                return dtype_oracle(w['lo'], w['hi'])
            return call(w['table'])
    finally:
        Engine.cur = saved


def replay_witness(w):
    r = replay(w)
    return ', '.join(sorted(set(f['tag'] for f in r))) if r else None


def dtype_oracle(lo, hi):
    import graphtage.matching as gm
    import numpy as real_np
    try:
        dt = gm.get_dtype(lo, hi)
    except (OverflowError, ValueError, TypeError) as ex:
        return [dict(tag='exception:' + type(ex).__name__, site='get_dtype', detail=str(ex)[:160])]
    info = real_np.iinfo(dt)
    if not (B(lo >= int(info.min)) and B(hi <= int(info.max))):
        return [dict(tag='dtype-too-narrow', site='get_dtype', detail=f"{dt} for [{_v(lo)},{_v(hi)}]")]
    return []


def _v(x):
    eng = Engine.cur
    if isinstance(x, SInt) and eng is not None:
        try:
            return eng.value(x)
        except Exception:   # noqa
            return '?'
    return x


def in_d11(w, f=None):
    """region of the listed finding KF-int64-fallback: some weight (or the missing-pair sentinel) is >= 2**63 while another
    weight is negative, so no numpy integer dtype holds the table and get_dtype falls back to int64"""
    if w.get('kind') == 'dtype':
        return w['lo'] < 0 and w['hi'] >= 2 ** 63
    vals = [x for r in w['table'] for x in r if x is not None and not isinstance(x, bool)]
    if not vals:
        return False
    mx = max(vals)
    if any(x is None for r in w['table'] for x in r):
        cols = len(w['table'][0])
        mx = max(mx, max(sum(r[c] for r in w['table'] if r[c] is not None) for c in range(cols)) + 1)
    return min(vals) < 0 and mx >= 2 ** 63


def in_sentinel_overflow(w, f=None):
    """region: the internal missing-pair sentinel (max column sum + 1) itself leaves [-2**63, 2**64)"""
    if w.get('kind') == 'dtype' or not any(x is None for r in w['table'] for x in r):
        return False
    cols = len(w['table'][0])
    s = max(sum(r[c] for r in w['table'] if r[c] is not None) for c in range(cols)) + 1
    return s >= 2 ** 64 or s < -2 ** 63


REGIONS = dict(int64_fallback=in_d11, sentinel_overflow=in_sentinel_overflow)


def run_job(job):
    install()
    samples = []
    reached = [0]

    def fn(eng):
        if job['kind'] == 'dtype':
            lo = eng.fresh_int('lo', LO, HI)
            hi = eng.fresh_int('hi', LO, HI)
            eng.assume(lo <= hi)
            bad = z3.And(lo.e < 0, hi.e >= 2 ** 63)
            eng.assume(bad if job.get('region_job') else z3.Not(bad))
            eng.notes['w'] = ('dtype', lo, hi)
            return dtype_oracle(lo, hi)
        n, m = job['shape']
        table = []
        for i in range(n):
            row = []
            for j in range(m):
                present = True
                if job['sparse'] and (i, j) in [tuple(x) for x in job['sparse']]:
                    present = False
                if not present:
                    row.append(None)
                elif job['wtype'] == 'bool':
                    v = eng.fresh_int(f"w{i}{j}", 0, 1)
                    row.append(SBit(v.e))
                else:
                    lo, hi = job.get('range', [LO, HI])
                    row.append(eng.fresh_int(f"w{i}{j}", lo, hi))
            table.append(row)
        eng.notes['w'] = ('table', table)
        return call(table)

    def on_path(eng, fails, aborted):
        w = eng.notes['w']
        if w[0] == 'dtype':
            wit = dict(kind='dtype', lo=eng.value(w[1]), hi=eng.value(w[2]))
        else:
            def cv(x):
                if x is None:
                    return None
                v = eng.value(x)
                return bool(v) if isinstance(x, SBit) else v
            wit = dict(kind='table', table=[[cv(x) for x in r] for r in w[1]])
        if len(samples) < 2:
            samples.append(wit)
        if not aborted:
            reached[0] += 1
        fails = list(fails or [])
        if aborted:
            fails = [dict(tag='hang', site='min_weight_bipartite_matching')]
        if fails:
            rtags = set(f['tag'].split(':')[0] if f['tag'].startswith('exception') else f['tag'] for f in replay(wit))
            for f in fails:
                f['witness'] = wit
                key = f['tag'].split(':')[0] if f['tag'].startswith('exception') else f['tag']
                f['reproduced'] = key in rtags
                f['replay_tags'] = sorted(rtags)
        return fails

    st = explore(fn, on_path, budget_s=job.get('budget', 1500), path_wall_s=20, max_fail=job.get('max_fail', 40),
                 **common.split_args(job))
    st['samples'] = samples
    if job.get('_stop_depth') is None and not job.get('_prefix'):
        st['twin_reached'] = reached[0] > 0
    return dict(st)


def _ranges(n, sparse):
    """per-weight ranges that keep the table outside the regions of the listed findings (int64 fallback when a negative
    weight meets one >= 2**63; overflow of the internal missing-pair sentinel = max column sum + 1)"""
    if not sparse:
        return [('nonneg', [0, HI]), ('signed', [LO, 2 ** 63 - 1])]
    return [('nonneg', [0, (2 ** 64 - 2) // n]), ('signed', [-(2 ** 63), (2 ** 63 - 2) // n])]


def jobs(tier, seed):
    out = [dict(kind='dtype', weight=1), dict(kind='dtype', weight=1, region_job=True, max_fail=3),
           dict(kind='table', shape=[1, 2], wtype='int', sparse=[], weight=1, region_job=True, max_fail=3),
           dict(kind='table', shape=[2, 2], wtype='int', sparse=[[0, 0]], weight=1, region_job=True, max_fail=3)]
    shapes = [(1, 1), (1, 2), (2, 1), (2, 2), (1, 3), (3, 1), (2, 3), (3, 2)]

    def add(n, m, miss, weight, **kw):
        for rname, rng in _ranges(n, bool(miss)):
            if tier == 'quick' and n * m >= 6 and min(n, m) > 1 and (rname != 'nonneg' or miss):
                continue
            j = dict(kind='table', shape=[n, m], wtype='int', sparse=[list(x) for x in miss], range=rng,
                     domain=rname, weight=weight, **kw)
            if n * m - len(miss) >= 5 and tier != 'quick':
                j['split_depth'] = 10 if n * m < 9 else 14
            out.append(j)
    for n, m in shapes:
        cells = [(i, j) for i in range(n) for j in range(m)]
        out.append(dict(kind='table', shape=[n, m], wtype='bool', sparse=[], weight=n * m))
        maxmiss = len(cells) if (len(cells) <= 4 or min(n, m) == 1) else 1
        for k in range(0, maxmiss + 1):
            for miss in itertools.combinations(cells, k):
                if tier == 'quick' and len(cells) == 6 and min(n, m) > 1 and k == 1 and miss[0] not in ((0, 0), (1, 1)):
                    continue
                add(n, m, miss, n * m * 10 - k)
    out.append(dict(kind='table', shape=[3, 3], wtype='bool', sparse=[], weight=50))
    if tier != 'quick':
        add(3, 3, (), 100, budget=3000)
    cells = [(i, j) for i in range(3) for j in range(3)]
    for k in []:       # 3x3 with missing pairs: 45 patterns x 2 domains x ~30k paths each -- beyond the thorough budget (measured)
        for miss in itertools.combinations(cells, k):
            add(3, 3, miss, 90, budget=3000)
    return out


def bounds_text(tier):
    return ("get_dtype: all integers lo <= hi in [-2**63, 2**64) (no size bound); tables 1x1..3x2/2x3 with every missing-pair "
            "pattern (quick: 2x3/3x2 only complete and non-negative), 3x3 boolean complete (thorough: 3x3 integer complete, prefix-split over the pool, and 2x3/3x2 with any one pair missing in both domains); integer weights "
            "symbolic; complete tables over the whole documented range split into the two domains [0, 2**64) and "
            "[-2**63, 2**63); sparse tables with per-weight ranges [0, (2**64-2)//rows] and [-2**63, (2**63-2)//rows] so that "
            "the internal sentinel stays representable (the complement is the region of the listed findings, explored by "
            "dedicated region jobs); boolean tables complete")
