"""C07 -- diffing is a pure, deterministic function of its inputs.

(1) no mutation: structural snapshot (types, payload identities, parents, attribute names, children) of both input trees
    before/after diff(), edits()+refinement and get_all_edits().
(2) determinism as 2-safety: the same symbolic documents are diffed twice in one run while the schedule is re-drawn:
    every set() created inside graphtage.graphtage iterates in an engine-chosen order (models PYTHONHASHSEED);
    assertion: identical cost and identical script (order included).  Two diffs in one process also expose state
    leaking from one diff into the next (caches).
"""
import itertools

from .. import common, tree_harness as th
from ..common import PATCHES
from ..tree_harness import guarded, B, L, I, D
from ..symx.core import Engine

PROP = "C07"


class NDSet:
    """stand-in for the builtin set inside graphtage.graphtage: iteration order is a choice of the engine (all
    permutations for <= 3 members, rotations beyond), which is how a hash-ordered set behaves across hash seeds"""

    def __init__(self, it=()):
        self.items = []
        for x in it:
            self.add(x)

    def add(self, x):
        if not any(y is x or B(y == x) for y in self.items):
            self.items.append(x)

    def __contains__(self, x):
        return any(y is x or B(y == x) for y in self.items)

    def __len__(self):
        return len(self.items)

    def __iter__(self):
        eng = Engine.cur
        n = len(self.items)
        if eng is None or n <= 1:
            order = _REPLAY_ORDER[0](self.items) if _REPLAY_ORDER[0] else list(self.items)
            return iter(order)
        if n <= 3:
            perms = list(itertools.permutations(self.items))
            return iter(perms[eng.choose(len(perms))])
        k = eng.choose(n)
        return iter(self.items[k:] + self.items[:k])

    def discard(self, x):
        self.items = [y for y in self.items if not (y is x or B(y == x))]

    remove = discard


_REPLAY_ORDER = [None]
_inst = [False]


def install_sched():
    if _inst[0]:
        return
    import graphtage.graphtage as gg
    PATCHES.set(gg, 'set', NDSet)
    PATCHES.install()
    _inst[0] = True


def snapshot(node, depth=0):
    """observable state of a tree: node types and identities, payload identities, parent links, children (identity and order)
    and the values of public attributes.  Private memo slots (e.g. the lazily cached size) are not alterations."""
    kids = th.children_of(node) if not node.is_leaf else []
    pay = id(getattr(node, 'object', None)) if node.is_leaf else None
    public = tuple(sorted((k, repr(v)) for k, v in vars(node).items()
                          if not k.startswith('_') and isinstance(v, (bool, int, str, type(None)))))
    return (type(node).__name__, id(node), id(node.parent) if node.parent is not None else None, pay, public,
            tuple(snapshot(c, depth + 1) for c in kids))


def paths(tree):
    out = {}

    def rec(n, p):
        out.setdefault(id(n), p)
        if not n.is_leaf:
            for i, c in enumerate(th.children_of(n)):
                rec(c, p + (i,))
    rec(tree, ())
    return out


def psig(s, pf, pt):
    return (s.cls, s.kind, pf.get(id(s.f)) if s.f is not None else None, pt.get(id(s.t)) if s.t is not None else None,
            tuple(psig(c, pf, pt) for c in s.subs) if s.subs is not None else None)


def one_diff(A, Bn):
    d = A.diff(Bn)
    cost = d.edited_cost()
    top = d.edit_list[0]
    pf = paths(d)
    pt = paths(Bn)
    # insert edits carry to-side nodes on their from side
    pf2 = dict(pt)
    pf2.update(pf)
    return cost, psig(th.extract(top), pf2, pt)


_CACHES = [None]


def fresh_process_state():
    """every path models a fresh process: memo tables that graphtage modules keep across calls (functools caches found on
    module-level functions and on class attributes) are emptied at the start of the path, so that what the first diff leaves
    behind is seen by the second diff of the *same* path only"""
    if _CACHES[0] is None:
        import sys
        found = []
        for name, mod in list(sys.modules.items()):
            if not (name == 'graphtage' or name.startswith('graphtage.')) or mod is None:
                continue
            for v in list(vars(mod).values()):
                if callable(getattr(v, 'cache_clear', None)):
                    found.append(v)
                elif isinstance(v, type) and getattr(v, '__module__', '').startswith('graphtage'):
                    for w in list(vars(v).values()):
                        w = getattr(w, '__func__', w)
                        if callable(getattr(w, 'cache_clear', None)):
                            found.append(w)
        _CACHES[0] = found
    for c in _CACHES[0]:
        c.cache_clear()


@guarded
def body(A, Bn, objA, objB, job):
    fails = []
    fresh_process_state()
    sa, sb = snapshot(A), snapshot(Bn)
    c1, s1 = one_diff(A, Bn)
    if snapshot(A) != sa or snapshot(Bn) != sb:
        fails.append(dict(tag='input-mutated-by-diff', site='TreeNode.diff', detail=None))
    c2, s2 = one_diff(A, Bn)
    if not B(c1 == c2):
        fails.append(dict(tag='cost-differs-between-runs', site='TreeNode.diff', detail=f"{th.val(c1)} then {th.val(c2)}"))
    if s1 != s2:
        fails.append(dict(tag='script-differs-between-runs', site='TreeNode.diff', detail=None))
    e = A.edits(Bn)
    th.drive_like_diff(e)
    th.tighten_all(e)
    if hasattr(e, 'edits'):
        list(e.edits())
    if snapshot(A) != sa or snapshot(Bn) != sb:
        fails.append(dict(tag='input-mutated-by-edits', site='TreeNode.edits', detail=None))
    list(A.get_all_edits(Bn))
    if snapshot(A) != sa or snapshot(Bn) != sb:
        fails.append(dict(tag='input-mutated-by-get_all_edits', site='TreeNode.get_all_edits', detail=None))
    return fails


def replay_body(A, Bn, objA, objB, job):
    """concrete replay: real sets; a reversed second ordering stands in for another hash seed where a set survives"""
    return body(A, Bn, objA, objB, job)


def hashseed_replay(wit, fails=None):
    """cross-process replay: one plain diff of the witness per PYTHONHASHSEED in fresh interpreters (no stub, no proxy);
    differing cost or script order between seeds reproduces a set-order dependence that one process cannot show"""
    import json
    import os
    import subprocess
    import sys
    outs = []
    for seed in ('1', '2', '3', '4'):
        env = dict(os.environ, PYTHONHASHSEED=seed, PYTHONPATH=common.ROOT)
        try:
            p = subprocess.run([sys.executable, '-m', 'verif.props.c07'], input=json.dumps(wit), capture_output=True, text=True,
                               timeout=60, env=env, cwd=common.ROOT)
        except subprocess.TimeoutExpired:
            return set()
        if p.returncode != 0:
            return set()
        outs.append(p.stdout.strip().splitlines()[-1] if p.stdout.strip() else '')
    tags = set()
    if len(set(outs)) > 1:
        costs = set(json.loads(o)[0] for o in outs if o)
        tags.add('script-differs-between-runs')
        if len(costs) > 1:
            tags.add('cost-differs-between-runs')
    return tags


def _child_main():
    import json
    import sys
    wit = json.load(sys.stdin)
    import logging
    logging.disable(logging.CRITICAL)
    import graphtage.printer as gpr
    gpr.DEFAULT_PRINTER.quiet = True
    objA, objB = th.from_witness(wit['A']), th.from_witness(wit['B'])
    opts = th.build_options(wit.get('dict', 'auto'), wit.get('list', 'on'))
    A, Bn = th.to_tree(objA, opts), th.to_tree(objB, opts)
    cost, sig = one_diff(A, Bn)
    print(json.dumps([cost, sig]))


def run_job(job):
    th.install()
    install_sched()
    return th.run_tree_job(job, body, site_default='TreeNode.diff', hang_tags=False, extra_replay=hashseed_replay)


def replay_witness(w):
    r = th.replay(w, body)
    tags = set(f['tag'] + '@' + str(f['site']) for f in r)
    tags |= set(t + '@cross-process' for t in hashseed_replay(w))
    return ', '.join(sorted(tags)) if tags else None


def jobs(tier, seed):
    out = th.tree_jobs(tier, skip=['mset', 'x-mset'] if tier == 'quick' else None)
    if tier == 'quick':
        out = [j for j in out if not (j['fam'].startswith('list') and j['fam'][4:6] in ('33', '32', '23') and j['list'] != 'on')]
    # string values so that StringEdit / string_edit_distance state is exercised twice in one process
    def CD(keys, vals):
        return ('dict', list(zip(keys, vals)))
    # measured: even the smallest mapping pair with *symbolic* 2-letter values under single-letter keys (DSc), diffed twice per
    # path, does not exhaust within 55 minutes on 16 cores -> not run in either tier.  State leaking between two diffs through
    # string_edit_distance needs keys of >= 2 characters (single characters take the shortcut in StringNode.edits), so the
    # repeated-call question is asked on mappings with *concrete* multi-character keys that compete for each other (shared
    # letters, different lengths) and symbolic 1-2 letter values over a 2-letter alphabet (value pairs repeat among the edges)
    keysets = [(['bbbb', 'a'], ['baa', 'b']), (['abc', 'b'], ['bc', 'ab'])]
    vsets = [([('s', 1), ('s', 1)], [('s', 1), ('s', 2)])]
    if tier != 'quick':
        # measured: 521 CPU-s / 6144 paths, exhausted.  Larger sets (3-character key pairs, three keys, 2-letter values on both
        # sides) did not exhaust within 9 minutes on 16 cores and are outside both tiers
        keysets += [(['ab', 'ba'], ['aa', 'bb'])]
    for ki, (ka, kb) in enumerate(keysets):
        for vi, (va, vb) in enumerate(vsets):
            va2 = (va + va)[:len(ka)]
            out.append(dict(fam=f'dict-ckeys-{ki}{vi}', A=CD(ka, va2), B=CD(kb, vb), dict='auto', list='on', weight=30, alpha=2,
                            split_depth=24))
    return out


META = dict(functions=th.TREE_FUNCTIONS + ["TreeNode.make_edited / editable_dict (copy before annotate)", "FixedKeyDictNode._child_edits "
                                            "(set iteration)", "HashableCounter / DictNode.from_dict ordering"],
            stubs=th.TREE_STUBS + ["set() inside graphtage.graphtage -> set with engine-chosen iteration order (models the string hash seed)"],
            assumptions=th.TREE_ASSUME + ["every explored path stands for a fresh process that diffs the same pair twice: functools caches held by "
                                          "graphtage modules are emptied at the start of a path (never between the two diffs)",
                                          "hash-seed variation is modelled in-process through set iteration order; a counterexample that one "
                                          "process cannot reproduce is replayed in fresh interpreters under PYTHONHASHSEED=1..4 (plain diff, no "
                                          "stub) and counts only if cost or script order differ between seeds"],
            files=th.TREE_FILES + ["graphtage/utils.py"],
            outside=["id()-based tie-break in BoundedComparator (not reached by tree diffs; covered with symbolic items in C17)",
                     "rendered bytes (C06/C13 render the same scripts)"])
REGIONS = dict(mset_duplicates=lambda w, f: th.matcher_collapse_region(w))
bounds_text = th.tree_bounds_text


def pre(tier, seed):
    from .. import conformance
    return conformance.tree_pre(seed)


if __name__ == '__main__':
    _child_main()
