"""C16 -- the priority queue always yields a minimum.

Real code executed: graphtage.fibonacci.FibonacciHeap / MaxFibonacciHeap (push, pop, peek, decrease_key, remove,
__len__, __bool__, _consolidate, _link, _cut, _cascading_cut) and graphtage.utils.smallest / largest.
Symbolic: every key (unbounded mathematical integers).  Enumerated by the engine: the operation script.
"""
import random

import z3

from ..symx.core import Engine, explore, B, sym_and, SInt, Unsupported
from .. import common

PROP = "C16"
OPS = ['push', 'pop', 'peek', 'dec', 'remove']

META = dict(
    functions=["graphtage.fibonacci.FibonacciHeap.push", "FibonacciHeap.pop", "FibonacciHeap.peek",
               "FibonacciHeap.decrease_key", "FibonacciHeap.remove", "FibonacciHeap.__len__",
               "FibonacciHeap._extract_min", "FibonacciHeap._consolidate", "FibonacciHeap._link",
               "FibonacciHeap._cut", "FibonacciHeap._cascading_cut", "MaxFibonacciHeap", "ReversedComparator",
               "HeapNode.__lt__/__le__", "graphtage.utils.smallest", "graphtage.utils.largest"],
    stubs=[],
    assumptions=["decrease_key is only called with a new key <= the old key (documented precondition)",
                 "remove/decrease_key only target nodes that are live members of the heap (documented precondition)",
                 "keys are mathematical integers compared with < / <= only"],
)


class _Fail(Exception):
    def __init__(self, tag, detail=None):
        self.tag = tag
        self.detail = detail


def _best(kind, k, others):
    """k is a best key among others (<= for min-heap, >= for max-heap): symbolic truth value."""
    if kind == 'min':
        return sym_and(*[k <= o for o in others])
    return sym_and(*[k >= o for o in others])


def run_script(eng, kind, nops, pinned, script=None, ckeys=()):
    """Executes one operation script against the real heap in lock-step with a list model.
    Returns (log, failure-or-None)."""
    heap = _mk(kind)
    ckeys = dict(enumerate(ckeys)) if not isinstance(ckeys, dict) else {int(k): v for k, v in ckeys.items()}
    live = {}        # item id -> (node, key)
    nxt = 0
    log = eng.notes.setdefault('log', [])          # every operation is logged *before* it runs (hang replay)
    keyexprs = eng.notes.setdefault('keys', [])

    def check_len():
        if len(heap) != len(live):
            raise _Fail('len', f"len(heap)={len(heap)} live={len(live)}")
        if bool(heap) != bool(live):
            raise _Fail('bool')

    def check_item(item, what):
        if item not in live:
            raise _Fail(what + '-not-live', f"returned {item}")
        k = live[item][1]
        if not B(_best(kind, k, [v[1] for v in live.values()])):
            raise _Fail(what + '-not-best', f"returned {item}")

    try:
        for step in range(nops):
            if script is not None:
                op = script[step][0]
            elif step < len(pinned):
                op = pinned[step]
            else:
                op = OPS[eng.choose(len(OPS))]
            if op == 'push':
                k = ckeys[nxt] if nxt in ckeys else eng.fresh_int(f"k{nxt}")
                keyexprs.append(k)
                item = nxt
                log.append(('push', item))
                node = _push(heap, item, k)
                live[item] = (node, k)
                nxt += 1
            elif op in ('pop', 'peek'):
                if not live:
                    from ..symx.core import Infeasible
                    raise Infeasible()
                log.append((op, None))
                it = heap.pop() if op == 'pop' else heap.peek()
                item = it.ident
                check_item(item, op)
                if op == 'pop':
                    del live[item]
            else:
                if not live:
                    from ..symx.core import Infeasible
                    raise Infeasible()
                ids = sorted(live)
                if script is not None:
                    tgt = ids[script[step][1] % len(ids)]
                else:
                    tgt = ids[eng.choose(len(ids))]
                node, old = live[tgt]
                if op == 'dec':
                    nk = eng.fresh_int(f"d{step}")
                    keyexprs.append(nk)
                    eng.assume((nk <= old) if kind == 'min' else (nk >= old))
                    log.append(('dec', tgt))
                    node.item.k = nk
                    heap.decrease_key(node, _wrapkey(kind, nk))
                    live[tgt] = (node, nk)
                else:
                    log.append(('remove', tgt))
                    heap.remove(node)
                    del live[tgt]
            check_len()
        # drain
        while live:
            log.append(('drain', None))
            it = heap.pop()
            check_item(it.ident, 'drain')
            del live[it.ident]
            check_len()
        if len(heap) != 0 or bool(heap):
            raise _Fail('len-after-drain')
    except _Fail as f:
        return log, keyexprs, (f.tag, f.detail)
    except (AssertionError, AttributeError, TypeError, ValueError, IndexError, KeyError, RecursionError) as ex:
        return log, keyexprs, ('exception:' + type(ex).__name__, str(ex)[:200])
    return log, keyexprs, None


class _Item:
    __slots__ = ('ident', 'k')

    def __init__(self, ident, k):
        self.ident = ident
        self.k = k

    def __repr__(self):
        return f"item{self.ident}"


def _wrapkey(kind, k):
    if kind == 'min':
        return k
    from graphtage.fibonacci import ReversedComparator
    return ReversedComparator(k)


def _push(heap, ident, k):
    return heap.push(_Item(ident, k))


def _mk(kind):  # real constructors with a key function reading the (symbolic) key off the item
    from graphtage.fibonacci import FibonacciHeap, MaxFibonacciHeap
    if kind == 'min':
        return FibonacciHeap(key=lambda it: it.k)
    return MaxFibonacciHeap(key=lambda it: it.k)


# ---------------------------------------------------------------- concrete replay (no proxies)
def replay(kind, log_ops, keys):
    """Re-run an operation log with concrete integer keys on the real heap; returns failure tag or None."""
    try:
        with common.wall_limit(10):
            return _replay(kind, log_ops, keys)
    except common.Timeout:
        return 'hang'


def _replay(kind, log_ops, keys):
    heap = _mk(kind)
    live = {}
    ki = iter(keys)
    try:
        for op, tgt in log_ops:
            if op == 'push':
                k = next(ki)
                it = _Item(tgt, k)
                live[tgt] = (heap.push(it), k)
            elif op in ('pop', 'peek', 'drain'):
                it = heap.peek() if op == 'peek' else heap.pop()
                if it.ident not in live:
                    return op + '-not-live'
                k = live[it.ident][1]
                ks = [v[1] for v in live.values()]
                if (kind == 'min' and k != min(ks)) or (kind == 'max' and k != max(ks)):
                    return op + '-not-best'
                if op != 'peek':
                    del live[it.ident]
            elif op == 'dec':
                node, old = live[tgt]
                nk = next(ki)
                node.item.k = nk
                heap.decrease_key(node, _wrapkey(kind, nk))
                live[tgt] = (node, nk)
            elif op == 'remove':
                heap.remove(live[tgt][0])
                del live[tgt]
            if len(heap) != len(live) or bool(heap) != bool(live):
                return 'len'
    except (AssertionError, AttributeError, TypeError, ValueError, IndexError, KeyError, RecursionError) as ex:
        return 'exception:' + type(ex).__name__
    return None


# ---------------------------------------------------------------- smallest / largest
def run_select(eng, which, n, k):
    from graphtage.utils import smallest, largest
    xs = [eng.fresh_int(f"x{i}") for i in range(n)]
    fn = smallest if which == 'smallest' else largest
    try:
        got = list(fn(*xs, n=k)) if n != 1 else list(fn(xs, n=k))
    except (AssertionError, AttributeError, TypeError, ValueError, IndexError) as ex:
        return xs, ('exception:' + type(ex).__name__, str(ex)[:200])
    want = min(k, n)
    if len(got) != want:
        return xs, ('select-count', f"{len(got)} != {want}")
    # every returned element is one of the inputs (by identity) and distinct objects
    ids = [id(g) for g in got]
    if len(set(ids)) != len(ids) or any(i not in [id(x) for x in xs] for i in ids):
        return xs, ('select-not-members', None)
    rest = [x for x in xs if id(x) not in ids]
    conds = []
    if n > k:       # when len(seq) <= n the documented behaviour is "yield from sequence" (no order promised)
        for a, b in zip(got, got[1:]):
            conds.append(a <= b if which == 'smallest' else a >= b)
    for g in got:
        for r in rest:
            conds.append(g <= r if which == 'smallest' else g >= r)
    if not B(sym_and(*conds)):
        return xs, ('select-wrong', None)
    return xs, None


def replay_select(which, vals, k):
    from graphtage.utils import smallest, largest
    fn = smallest if which == 'smallest' else largest
    got = list(fn(*vals, n=k)) if len(vals) != 1 else list(fn(vals, n=k))
    exp = sorted(vals, reverse=(which == 'largest'))[:k]
    if len(vals) > k:
        return None if got == exp else 'select-wrong'
    return None if sorted(got) == sorted(exp) else 'select-wrong'


# ---------------------------------------------------------------- jobs
def jobs(tier, seed):
    out = []
    L = 5 if tier == 'quick' else 6
    for kind in ('min', 'max'):
        # (a) every script of <= L operations, all keys symbolic
        for L_ in range(1, L + 1):
            if L_ <= 3:
                out.append(dict(kind='script', heap=kind, nops=L_, pinned=['push']))
            else:
                for o2 in OPS:
                    for o3 in OPS:
                        out.append(dict(kind='script', heap=kind, nops=L_, pinned=['push', o2, o3], weight=L_ + 2))
        # (b) deep scripts: n pushes with concrete keys + pop (consolidation builds trees of degree up to 3),
        #     then m engine-chosen operations with symbolic keys and engine-chosen targets, then a full drain
        sign = 1 if kind == 'min' else -1
        for n in range(4, 9 if tier == 'quick' else 10):
            pats = {'inc': [10 * i for i in range(n)], 'dec': [10 * (n - i) for i in range(n)], 'eq': [5] * n}
            for pname, ck in pats.items():
                if tier == 'quick':
                    out.append(dict(kind='script', heap=kind, nops=n + 3, pinned=['push'] * n + ['pop'], ckeys=ck, pat=pname, weight=n + 3))
                else:
                    for o in OPS:
                        out.append(dict(kind='script', heap=kind, nops=n + 4, pinned=['push'] * n + ['pop', o], ckeys=ck,
                                        pat=pname, budget=3000, weight=n + 4))
    # (c) fixed long scripts (seeded): n0 pushes with concrete seeded keys, then 7-10 concrete op kinds/targets; at most
    #     3 of the later keys are symbolic (each ranges over all integers), the other pushes get concrete seeded keys
    rnd = random.Random(seed)
    nlong = 10 if tier == 'quick' else 120
    for i in range(nlong):
        n0 = rnd.randint(3, 8)
        script, size, nsym, npush = [('push', 0)] * n0, n0, 0, n0
        ck = {j: rnd.randint(0, 12) * 5 for j in range(n0)}
        for _ in range(rnd.randint(7, 10)):
            if size == 0:
                op = 'push'
            else:
                op = rnd.choices(OPS, weights=[4, 4, 1, 4, 3])[0]
            if op == 'dec':
                if nsym >= 3:
                    op = 'remove'
                else:
                    nsym += 1
            if op == 'push':
                if nsym >= 3 or rnd.random() < 0.4:
                    ck[npush] = rnd.randint(0, 12) * 5
                else:
                    nsym += 1
                npush += 1
            script.append((op, rnd.randint(0, 7)))
            size += 1 if op == 'push' else (-1 if op in ('pop', 'remove') else 0)
        out.append(dict(kind='long', heap=rnd.choice(['min', 'max']), script=script, ckeys=ck, weight=len(script)))
    for which in ('smallest', 'largest'):
        for n in range(1, 5 if tier == 'quick' else 6):
            for k in range(1, n + 2):
                out.append(dict(kind='select', which=which, n=n, k=k))
    out.append(dict(kind='twin', heap='min', nops=3, pinned=['push']))
    return out


def bounds_text(tier):
    L = 5 if tier == 'quick' else 6
    return (f"(a) every operation script of <= {L} ops over {{push,pop,peek,decrease_key,remove}} with every target choice, all "
            f"keys symbolic integers, followed by a full drain; (b) deep scripts: 4..{8 if tier == 'quick' else 9} pushes with "
            f"concrete keys (increasing/decreasing/all-equal) + pop, then {2 if tier == 'quick' else 3} engine-chosen ops with "
            "symbolic keys, then drain; (c) seeded fixed scripts of 8-13 ops with symbolic keys; min- and max-heap; "
            "smallest()/largest() on <=4 (thorough 5) symbolic ints, every n. Longer histories are outside the claim.")


def run_job(job):
    fails = []
    samples = []
    twin_hit = [False]

    if job['kind'] in ('script', 'long', 'twin'):
        kind = job['heap']

        def fn(eng):
            if job['kind'] == 'long':
                return run_script(eng, kind, len(job['script']), [], script=job['script'], ckeys=job.get('ckeys', ()))
            return run_script(eng, kind, job['nops'], job['pinned'], ckeys=job.get('ckeys', ()))

        def on_path(eng, res, aborted):
            if aborted:
                res = (eng.notes.get('log', []), eng.notes.get('keys', []), ('hang', 'path exceeded 10 s in the symbolic run'))
            log, keyexprs, failure = res
            if job['kind'] == 'twin':
                twin_hit[0] = True       # reachability twin: the final assertion point is reached
                return None
            if len(samples) < 2:
                samples.append(dict(heap=kind, ops=log, keys=[eng.value(k) for k in keyexprs]))
            if failure:
                keys = [eng.value(k) for k in keyexprs]
                rep = replay(kind, log_for_replay(log), keys)
                return [dict(tag=failure[0], site='FibonacciHeap', detail=failure[1], reproduced=rep is not None,
                             replay_tag=rep, witness=dict(heap=kind, ops=log_for_replay(log), keys=keys))]
        st = explore(fn, on_path, budget_s=job.get('budget', 1500), path_wall_s=10, max_fail=3)
    else:
        def fn(eng):
            return run_select(eng, job['which'], job['n'], job['k'])

        def on_path(eng, res, aborted):
            xs, failure = res
            if len(samples) < 1:
                samples.append(dict(fn=job['which'], values=[eng.value(x) for x in xs], n=job['k']))
            if failure:
                vals = [eng.value(x) for x in xs]
                rep = None
                try:
                    rep = replay_select(job['which'], vals, job['k'])
                except Exception as ex:     # noqa
                    rep = 'exception:' + type(ex).__name__
                return [dict(tag=failure[0], site='utils.' + job['which'], detail=failure[1], reproduced=rep is not None,
                             replay_tag=rep, witness=dict(fn=job['which'], values=vals, n=job['k']))]
        st = explore(fn, on_path, budget_s=job.get('budget', 600), max_fail=3)
    st['samples'] = samples
    if job['kind'] == 'twin':
        st['twin_reached'] = twin_hit[0]
    return dict(st)


def log_for_replay(log):
    return [[op, tgt] for op, tgt in log]


def replay_witness(w):
    if 'fn' in w:
        return replay_select(w['fn'], w['values'], w['n'])
    return replay(w['heap'], [tuple(x) for x in w['ops']], w['keys'])
