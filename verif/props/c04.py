"""C04 -- cost bounds only tighten, stay sound, and converge (monitor around every Bounded class)."""
from .. import tree_harness as th
from ..tree_harness import guarded, MONITOR

PROP = "C04"


@guarded
def body(A, Bn, objA, objB, job):
    mode = (job.get('extra') or {}).get('monitor', 'passive')
    fails = []
    MONITOR.start(mode)
    try:
        e = A.edits(Bn)
        th.drive_like_diff(e)          # the history TreeNode.diff produces
        th.tighten_all(e)              # then to a single value (R3/R4/R5)
        for oid, (obj, name, hist) in list(MONITOR.seen.items()):
            if getattr(obj, 'valid', True):
                th.tighten_all(obj)
                obj.bounds()
        tb = e.bounds()
        if getattr(e, 'valid', True) and not th.B(tb.lower_bound == tb.upper_bound):
            fails.append(dict(tag='R3-top-not-definitive', site=type(e).__name__, detail=None))
    finally:
        MONITOR.stop()
    th.check_monitor(MONITOR, fails)
    return fails


def run_job(job):
    return th.run_tree_job(job, body, site_default='tighten_bounds', hang_tags=True)


def replay_witness(w):
    r = th.replay(w, body)
    return ', '.join(sorted(set(f['tag'] + '@' + str(f['site']) for f in r))) if r else None


def jobs(tier, seed):
    js = th.tree_jobs(tier, extra=dict(monitor='passive')) + th.tree_jobs(tier, extra=dict(monitor='active'))
    js += [dict(dict(alpha=3), **dict(j, extra=dict(monitor='passive'))) for j in th.KNOWN_DUP_JOBS] + [dict(dict(alpha=3), **dict(j, extra=dict(monitor='active'))) for j in th.KNOWN_DUP_JOBS if 'dups-s' in j['fam']]
    return js

META = dict(functions=th.TREE_FUNCTIONS, stubs=th.TREE_STUBS, assumptions=th.TREE_ASSUME, files=th.TREE_FILES)
bounds_text = th.tree_bounds_text
REGIONS = dict(mset_duplicates=lambda w, f: th.matcher_collapse_region(w))


def pre(tier, seed):
    from .. import conformance
    return conformance.tree_pre(seed)
