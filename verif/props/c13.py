"""C13 -- any input type can be rendered in any output format and mode without an internal error.

Configurations (finite by definition, enumerated on every path): node family of each input type {generic tree of
json/json5/yaml, CSV rows, plist wrapper, XML element, pydiff/pickle objects} x formatter of each output type (8) x mode
{full diff, edit list, edit digest} x printer {plain, ANSI, HTML} x condensed on/off.  For the generic / CSV / plist
families the leaf values are symbolic during the diff (so every script shape is rendered, with and without differences;
render-time pinning as in C06); XML and pydiff documents need real str payloads and are concrete jobs.
"""
import io
import itertools

from .. import common, tree_harness as th
from ..leaves import Pay
from ..tree_harness import B, L, I, D
from ..symx.core import Engine
from . import c06

PROP = "C13"
FORMATS = ['json', 'json5', 'yaml', 'csv', 'xml', 'html', 'plist', 'pickle']
MODES = ['full', 'edits', 'digest']
PRINTERS = ['plain', 'ansi', 'html']
RENDER_ERRORS = (Exception,)
_ROT = [0]


def make_printer(kind, condensed, out):
    from graphtage.printer import Printer, HTMLPrinter
    opts = dict(join_lists=condensed, join_dict_items=condensed)
    if kind == 'html':
        return HTMLPrinter(out_stream=out, ansi_color=False, quiet=True, options=opts, title="t")
    return Printer(out_stream=out, ansi_color=(kind == 'ansi'), quiet=True, options=opts)


def render_config(A, Bn, d, fmt, mode, pkind, condensed):
    """mirrors the three output branches of graphtage.__main__.main"""
    import graphtage
    from graphtage.printer import Fore
    c06.no_colorama_init()
    formatter = graphtage.FILETYPES_BY_TYPENAME[fmt].get_default_formatter()
    out = io.StringIO()
    printer = make_printer(pkind, condensed, out)
    with printer:
        if mode == 'edits':
            for edit in A.get_all_edits(Bn):
                printer.write(str(edit))
                printer.newline()
        elif mode == 'digest':
            for ancestors, edit in A.get_all_edit_contexts(Bn):
                for i, node in enumerate(ancestors):
                    if node.parent is not None:
                        node.parent.print_parent_context(printer, for_child=node)
                    if i == len(ancestors) - 1:
                        with printer.color(Fore.BLUE):
                            printer.write(" -> ")
                        formatter.print(printer, edit)
                printer.newline()
        else:
            formatter.print(printer, d)
        printer.write('\n')
    return out.getvalue()


def all_configs():
    return [(f, m, p, c) for f in FORMATS for m in MODES for p in PRINTERS for c in (False, True)]


def family_of(job):
    return job.get('family', 'generic')


def wrap_family(A, Bn, job):
    fam = family_of(job)
    if fam == 'csv':
        from graphtage.csv import CSVNode, CSVRow
        from graphtage import StringNode

        def conv(t):
            rows = []
            for row in t._children:
                cells = list(row._children)
                for c in cells:
                    c._parent = None
                    if isinstance(c, StringNode):
                        c.quoted = False
                rows.append(CSVRow(cells))
            return CSVNode(rows)
        return conv(A), conv(Bn)
    return A, Bn


def body(A, Bn, objA, objB, job):
    fails = []
    eng = Engine.cur
    ex = job.get('extra') or {}
    try:
        A, Bn = wrap_family(A, Bn, job)
        d = A.diff(Bn)
        d.edited_cost()
        script = th.extract(d.edit_list[0])
        c06.concretize_nodes(eng, [objA, objB], [d, Bn, A], script)
    except th.REAL_ERRORS as exn:
        return [dict(tag='exception:' + type(exn).__name__, site='diff before rendering', detail=str(exn)[:160])]
    if ex.get('config'):
        configs = [tuple(ex['config'])]
    else:
        # every formatter x mode on every path; the 6 printer/condensed variants rotate from path to path
        _ROT[0] += 1
        pv = [(p, c) for p in PRINTERS for c in (False, True)]
        configs = [(f, m) + pv[(_ROT[0] + i) % 6] for i, (f, m) in enumerate((f, m) for f in FORMATS for m in MODES)]
    for cfg in configs:
        fmt, mode, pk, cond = cfg
        try:
            render_config(A, Bn, d, fmt, mode, pk, cond)
        except RENDER_ERRORS as exn:
            if isinstance(exn, (th.Unsupported,)):
                raise
            fails.append(dict(tag='render-error', site=f"{family_of(job)}->{fmt}/{mode}", cfg=list(cfg),
                              detail=f"{type(exn).__name__}: {str(exn)[:120]} [{pk}{'/condensed' if cond else ''}]"))
    return fails


def dedupe(fails):
    """one failure record per (site, exception type): the printer/condensed variants of one defect are folded"""
    seen = {}
    for f in fails:
        k = (f['site'], f['detail'].split(':')[0])
        seen.setdefault(k, f)
    return list(seen.values())


def sym_body(A, Bn, objA, objB, job):
    return dedupe(body(A, Bn, objA, objB, job))


def run_job(job):
    if job.get('kind') == 'concrete':
        return run_concrete(job)
    return th.run_tree_job(job, sym_body, site_default='render', hang_tags=False, max_fail=100000,
                           witness_extra=lambda eng: dict(job.get('extra') or {}, family=family_of(job)))


# ---------------------------------------------------------------- concrete families (XML, pydiff/pickle)
def concrete_docs():
    import xml.etree.ElementTree as ET
    import graphtage.xml as gx
    import graphtage.pydiff as gp
    docs = []
    xmls = [("<a x='1'><b>t</b><c/></a>", "<a x='2'><b>u</b></a>"), ("<r><i>1</i><i>2</i></r>", "<r><i>2</i><i>1</i><j k='v'/></r>"),
            ("<a>same</a>", "<a>same</a>")]
    for x, y in xmls:
        docs.append(('xml', x, y, lambda s: gx.build_tree(ET.fromstring(s))))
    objs = [([1, (2, 3), {"a": 1}], [1, (2, 4), {"a": 2, "b": None}]), ({"k": [1, 2]}, {"k": [2]}), ("abc", "abd"), ([1], [1])]
    for x, y in objs:
        docs.append(('pydiff', x, y, gp.build_tree))
    return docs


def run_concrete(job):
    fails = []
    n = 0
    samples = []
    for fam, x, y, build in concrete_docs():
        A, Bn = build(x), build(y)
        try:
            d = A.diff(Bn)
        except th.REAL_ERRORS as exn:
            fails.append(dict(tag='exception:' + type(exn).__name__, site=f'{fam} diff', detail=str(exn)[:120], reproduced=True,
                              witness=dict(concrete=[fam, repr(x), repr(y)]), replay_tags=[]))
            continue
        these = []
        for cfg in all_configs():
            n += 1
            fmt, mode, pk, cond = cfg
            try:
                A2, B2 = build(x), build(y)
                render_config(A2, B2, A2.diff(B2) if mode == 'full' else None, fmt, mode, pk, cond)
            except RENDER_ERRORS as exn:
                these.append(dict(tag='render-error', site=f"{fam}->{fmt}/{mode}", cfg=list(cfg),
                                  detail=f"{type(exn).__name__}: {str(exn)[:120]} [{pk}{'/condensed' if cond else ''}]",
                                  reproduced=True, witness=dict(concrete=[fam, repr(x), repr(y)], family=fam, config=list(cfg)),
                                  replay_tags=[]))
        fails += dedupe(these)
        if len(samples) < 2:
            samples.append(dict(family=fam, A=repr(x), B=repr(y), configs=len(all_configs())))
    return dict(paths=n, queries=0, infeasible=0, aborted=0, solver_s=0.0, exhausted=True, unsupported=None, failures=fails,
                samples=samples, twin_reached=n > 0, extra=dict(concrete_render_runs=n))


def replay_witness(w):
    if 'concrete' in w:
        fam, x, y = w['concrete']
        for f2, x2, y2, build in concrete_docs():
            if f2 == fam and repr(x2) == x and repr(y2) == y:
                cfg = w.get('config')
                try:
                    A2, B2 = build(x2), build(y2)
                    render_config(A2, B2, A2.diff(B2), *cfg)
                except RENDER_ERRORS as exn:
                    return f"render-error {type(exn).__name__}"
        return None
    fam = (w.get('extra') or {}).get('family', 'generic')
    r = th.replay(w, lambda A, Bn, a, b, j: sym_body(A, Bn, a, b, dict(j, family=fam, extra=w.get('extra'))))
    return ', '.join(sorted(set(f['tag'] + '@' + str(f['site']) for f in r))) if r else None


# ---------------------------------------------------------------- regions of the listed findings (by configuration)
def _site(f):
    return (f or {}).get('site', '')


def region_xml_foreign_formatter(w, f):
    s = _site(f)
    return s.startswith('xml->') and not (s.startswith('xml->xml/') or s.startswith('xml->html/'))


def region_yaml_reparent(w, f):
    s = _site(f)
    d = (f or {}).get('detail', '')
    return d.startswith('ValueError') and (s.endswith('->yaml/digest') or s == 'plist->yaml/full')


def region_plist_null(w, f):
    s = _site(f)
    d = (f or {}).get('detail', '')
    return '->plist/' in s and d.startswith("TypeError: unsupported type: <class 'NoneType'>")


REGIONS = dict(xml_foreign_formatter=region_xml_foreign_formatter, yaml_reparent=region_yaml_reparent, plist_null=region_plist_null)


def jobs(tier, seed):
    out = []
    shapes = [
        ('L22', L(I(), I(2)), L(I(2), I())),
        ('L21', L(I(), I(2)), L(I(2))),
        ('D21', D(I(), I(2)), D(I(2))),
        ('D22', D(I(), ('s', 1)), D(('s', 1), I(2))),
        ('LD', L(D(I()), I()), L(D(I(2)), I(2))),
        ('DL', D(L(I(), I(2))), D(L(I(2)))),
        ('mix', L(('n',), ('b', True), ('s', 1)), L(('s', 1), ('n',), I())),
        ('leaf', I(2), I(1)),
        ('x-list-dict', L(I()), D(I())),
        # YAML and pickle inputs can carry non-string mapping keys
        ('Dint', ('dict', [(('i', 1), I()), (('i', 1), I(2))]), ('dict', [(('i', 1), I(2))])),
        ('Dbool', ('dict', [(('b', True), I())]), ('dict', [(('b', False), I(2))])),
    ]
    if tier != 'quick':
        shapes += [('L32', L(I(), I(2), I()), L(I(), I())), ('D32', D(I(), I(2), I()), D(I(2), I())), ('DD', D(D(I()), I(2)), D(D(I(2)), D(I())))]
    for name, A, B_ in shapes:
        for st in ('auto', 'none'):
            if name == 'D32' and st == 'auto':
                continue       # 5 keys under auto: ~2.4k paths x 24 renderings, not exhausted in 1500 s (measured)
            out.append(dict(fam=name, family='generic', A=A, B=B_, dict=st, list='on', weight=10, alpha=3))
            out.append(dict(fam=name, family='plist', A=('plist', A), B=('plist', B_), dict=st, list='on', weight=10, alpha=3))
    csvs = [('csv12', L(L(('s', 1), ('s', 1))), L(L(('s', 1), ('s', 1)), L(('s', 1)))),
            ('csv21', L(L(('s', 1), ('s', 1)), L(('s', 1))), L(L(('s', 1), ('s', 1)))),
            ('csvint', L(L(I(), I(2))), L(L(I(2), I()), L(I())))]
    for name, A, B_ in csvs:
        out.append(dict(fam=name, family='csv', A=A, B=B_, dict='auto', list='on', weight=10, alpha=3))
    out.append(dict(kind='concrete', weight=30))
    return out


META = dict(functions=th.TREE_FUNCTIONS + ["get_default_formatter() of all 8 registered Filetypes and their formatters (json, json5, yaml, csv, "
                                            "xml, html, plist, pickle/pydiff)", "formatter.Formatter lookup protocol", "Printer / HTMLPrinter",
                                            "TreeNode.get_all_edits / get_all_edit_contexts / print_parent_context", "the three output branches "
                                            "of main() (mirrored by render_config)"],
            stubs=th.TREE_STUBS + ["colorama.init() -> no-op (terminal set-up)", "render-time pinning (as C06)"],
            assumptions=th.TREE_ASSUME + ["main()'s argument parsing and file loading are outside (the three rendering branches are "
                                          "mirrored 1:1 by the harness)"],
            files=th.TREE_FILES + ["graphtage/formatter.py", "graphtage/yaml.py", "graphtage/csv.py", "graphtage/xml.py", "graphtage/pydiff.py",
                                   "graphtage/printer.py", "graphtage/__main__.py"],
            outside=["XML/HTML and pickle inputs as symbolic documents (their leaves need real str methods): concrete jobs, reported "
                     "separately as concrete_render_runs"])


def bounds_text(tier):
    return ("11 (thorough 14) generic document shapes (incl. integer / boolean mapping keys) x {auto, none} + the same under the plist wrapper + 3 CSV tables, leaf values "
            "symbolic during the diff; on every path all 24 formatter x mode combinations are rendered, the 6 printer x condensed variants "
            "rotating from path to path (all 144 configurations occur in every job); XML (3 pairs) and pydiff (4 pairs) documents rendered concretely in all 144 configurations")


def pre(tier, seed):
    from .. import conformance
    return conformance.tree_pre(seed)
