"""C02 -- no edits are reported exactly when the two documents are equal.

(a) kernel: the real levenshtein_distance is summarised by symx per length shape; z3 discharges, for all strings of the
    shape, `summary == textbook DP` and `summary == 0 <=> strings equal`; the real leaf edits (LeafNode/StringNode/
    NullNode.edits) run on every kind combination with symbolic payloads.
(b) tree level: final cost == 0  <=>  documents equal as data  <=>  the expression main() turns into the exit status
    is False (re-extracted from graphtage/__main__.py by AST on every run)  <=>  no node is marked removed/inserted.
"""
import ast
import os
import time

import z3

from .. import common, leaves, tree_harness as th
from ..leaves import Pay
from ..symx.core import Engine, B, sym_not, SBool
from ..tree_harness import guarded, L, I, D

PROP = "C02"
_HAD = [None]


def had_edits_fn():
    """compile `had_edits = any(any(e.has_non_zero_cost() ...` out of main()'s source (full-diff branch)"""
    if _HAD[0] is not None:
        return _HAD[0]
    src = open(os.path.join(common.REPO, 'graphtage', '__main__.py')).read()
    tree = ast.parse(src)
    found = None
    for node in ast.walk(tree):
        if isinstance(node, ast.Assign) and len(node.targets) == 1 and isinstance(node.targets[0], ast.Name) \
                and node.targets[0].id == 'had_edits' and isinstance(node.value, ast.Call) \
                and any(isinstance(n, ast.Name) and n.id == 'diff' for n in ast.walk(node.value)):
            found = node.value
    if found is None:
        raise th.Unsupported("cannot locate the had_edits expression of the full-diff branch in graphtage/__main__.py")
    code = compile(ast.Expression(found), '<had_edits from __main__.py>', 'eval')
    _HAD[0] = (lambda diff: eval(code, {'any': any}, {'diff': diff}), ast.unparse(found))
    return _HAD[0]


@guarded
def body(A, Bn, objA, objB, job):
    fails = []
    d = A.diff(Bn)
    cost = d.edited_cost()
    eq = th.obj_equal(objA, objB)
    is_eq = B(eq)                     # forks: both outcomes are explored whenever both are feasible
    zero = B(cost == 0)
    if is_eq and not zero:
        fails.append(dict(tag='equal-but-positive-cost', site=type(d.edit_list[0]).__name__ if d.edit_list else '?',
                          detail=f"cost {th.val(cost)}"))
    if zero and not is_eq:
        fails.append(dict(tag='different-but-zero-cost', site=type(d.edit_list[0]).__name__ if d.edit_list else '?',
                          detail=None))
    fn, _ = had_edits_fn()
    had = bool(fn(d))
    if had == is_eq:
        fails.append(dict(tag='exit-status-disagrees', site='__main__.had_edits',
                          detail=f"had_edits={had} documents_equal={is_eq}"))
    marked = any(getattr(n, 'removed', False) or getattr(n, 'inserted', None) for n in d.dfs())
    if is_eq and marked:
        fails.append(dict(tag='equal-but-marked', site='EditedTreeNode', detail=None))
    return fails


def run_crosshair(job):
    """second engine on the string kernel (CrossHair 0.0.110): the real levenshtein_distance vs a textbook reference for
    symbolic str of length <= 2 and <= 3.  A counterexample counts only if it replays; 'not confirmed' is recorded, not
    failed (the deciding engine for the kernel is the z3 query on the symx summary)."""
    import re
    import subprocess
    import sys
    t0 = time.time()
    target = os.path.join(common.ROOT, 'verif', 'xh_lev.py')
    try:
        import crosshair  # noqa: F401
    except Exception:   # noqa
        return dict(paths=1, queries=0, infeasible=0, aborted=0, solver_s=0.0, exhausted=True, unsupported=None, failures=[],
                    samples=[dict(crosshair='not installed (setup fell back to z3 only): second engine skipped')], twin_reached=True,
                    extra=dict(crosshair_confirmed=0))
    try:
        p = subprocess.run([sys.executable, '-m', 'crosshair', 'check', '--report_all', '--per_condition_timeout', str(job.get('timeout', 150)),
                            target], capture_output=True, text=True, timeout=job.get('timeout', 150) * 2 + 60, cwd=common.ROOT)
        out = p.stdout + p.stderr
    except subprocess.TimeoutExpired:
        out = 'timeout'
    confirmed = out.count('Confirmed over all paths')
    fails = []
    pat = 'error: .*? when calling _kernel_agrees(?:_3)?' + chr(92) + '((.*?)' + chr(92) + ')(?: ' + chr(92) + '(which|$)'
    for m in re.finditer(pat, out, re.M):
        try:
            args = eval('(' + m.group(1) + ',)', {'__builtins__': {}}, {})
            if len(args) != 2:
                continue
            # CrossHair's model characters are arbitrary code points; keep their equality pattern
            names = {}
            for ch in args[0] + args[1]:
                names.setdefault(ch, chr(97 + len(names)))
            wit = dict(kernel=True, s=''.join(names[c] for c in args[0]), t=''.join(names[c] for c in args[1]))
            rep = kernel_replay(wit)
            fails.append(dict(tag='crosshair-counterexample', site='levenshtein_distance', detail=rep, witness=wit,
                              reproduced=rep is not None, replay_tags=[rep]))
        except Exception:   # noqa
            pass
    return dict(paths=max(confirmed, 1), queries=0, infeasible=0, aborted=0, solver_s=round(time.time() - t0, 1), exhausted=True,
                unsupported=None, failures=fails, twin_reached=True,
                samples=[dict(crosshair_output=[l for l in out.splitlines() if 'xh_lev' in l][:4])],
                extra=dict(crosshair_confirmed=confirmed, crosshair_conditions=2))


def run_job(job):
    if job.get('kind') == 'kernel':
        return run_kernel(job)
    if job.get('kind') == 'crosshair':
        return run_crosshair(job)
    return th.run_tree_job(job, body, site_default='TreeNode.diff', hang_tags=False)


def replay_witness(w):
    if 'kernel' in w:
        return kernel_replay(w)
    r = th.replay(w, body)
    return ', '.join(sorted(set(f['tag'] + '@' + str(f['site']) for f in r))) if r else None


# ---------------------------------------------------------------- (a) kernel queries
def textbook(ps, qs):
    n, m = len(ps), len(qs)
    T = [[None] * (m + 1) for _ in range(n + 1)]
    for i in range(n + 1):
        T[i][0] = z3.IntVal(i)
    for j in range(m + 1):
        T[0][j] = z3.IntVal(j)

    def mn(a, b):
        return z3.If(a <= b, a, b)
    for i in range(1, n + 1):
        for j in range(1, m + 1):
            T[i][j] = mn(mn(T[i - 1][j] + 1, T[i][j - 1] + 1), T[i - 1][j - 1] + z3.If(ps[i - 1] == qs[j - 1], 0, 1))
    return T[n][m]


def kernel_replay(w):
    import graphtage.levenshtein as lev
    from ..conformance import _orig
    real = _orig(lev, 'levenshtein_distance')
    s, t = w['s'], w['t']
    got = real(s, t)
    # textbook value
    n, m = len(s), len(t)
    T = [[0] * (m + 1) for _ in range(n + 1)]
    for i in range(n + 1):
        T[i][0] = i
    for j in range(m + 1):
        T[0][j] = j
    for i in range(1, n + 1):
        for j in range(1, m + 1):
            T[i][j] = min(T[i - 1][j] + 1, T[i][j - 1] + 1, T[i - 1][j - 1] + (s[i - 1] != t[j - 1]))
    if got != T[n][m]:
        return f"levenshtein_distance({s!r},{t!r}) = {got}, textbook {T[n][m]}"
    if (got == 0) != (s == t):
        return f"levenshtein_distance({s!r},{t!r}) = {got} but equality is {s == t}"
    return None


def run_kernel(job):
    th.install()
    n, m = job['shape']
    t0 = time.time()
    saved = Engine.cur
    ps, qs, expr, npaths = leaves.SUMMARIES.get(n, m)
    Engine.cur = saved
    fails = []
    queries = 0
    samples = []
    for name, claim in (('summary-differs-from-textbook', expr == textbook(ps, qs)),
                        ('zero-iff-equal', (expr == 0) == (z3.BoolVal(n == m) if n != m else z3.And([p == q for p, q in zip(ps, qs)] or [z3.BoolVal(True)])))):
        s = z3.Solver()
        s.set('timeout', 60000)
        s.add(z3.Not(claim))
        r = s.check()
        queries += 1
        if r == z3.unknown:
            return dict(paths=npaths, queries=queries, exhausted=False, unsupported='z3 unknown on kernel query', failures=[],
                        samples=[], solver_s=0)
        if r == z3.sat:
            mdl = s.model()

            def txt(vs):
                out = ''
                for v in vs:
                    c = mdl.eval(v, model_completion=True).as_long()
                    out += chr(c) if 32 <= c < 0x10FFFF else chr(97 + (abs(c) % 26))
                return out
            # the model's code points are arbitrary integers; keep only their equality pattern when mapping to letters
            vals = [mdl.eval(v, model_completion=True).as_long() for v in ps + qs]
            names = {}
            for v in vals:
                names.setdefault(v, chr(97 + len(names)))
            sv = ''.join(names[v] for v in vals[:n])
            tv = ''.join(names[v] for v in vals[n:])
            wit = dict(kernel=True, s=sv, t=tv)
            rep = kernel_replay(wit)
            fails.append(dict(tag=name, site='levenshtein_distance', detail=rep, witness=wit, reproduced=rep is not None,
                              replay_tags=[rep]))
    # reachability twin: the summary is not vacuous (a satisfiable instance exists)
    s = z3.Solver()
    s.add(expr >= 0)
    twin = s.check() == z3.sat
    samples.append(dict(kernel_shape=[n, m], summary_paths=npaths))
    return dict(paths=npaths, queries=queries + 1, infeasible=0, aborted=0, solver_s=round(time.time() - t0, 2), exhausted=True,
                unsupported=None, failures=fails, samples=samples, twin_reached=twin, extra=dict(kernel_queries=queries))


def jobs(tier, seed):
    shapes = [(n, m) for n in range(5) for m in range(5)]
    if tier != 'quick':
        # 5x5 / 5x4 summaries are beyond z3's 60 s cap (measured: unknown / summary not exhausted)
        shapes += [(5, k) for k in range(4)] + [(k, 5) for k in range(4)]
    out = [dict(kind='kernel', shape=[n, m], weight=n * m) for n, m in shapes]
    out.append(dict(kind='crosshair', weight=100, timeout=150 if tier == 'quick' else 600))
    # leaf pairs of every kind combination (symbolic payloads, lengths up to 3; "" included)
    kinds = [('i', 1), ('i', 2), ('i', 3), ('s', 0), ('s', 1), ('s', 2), ('s', 3), ('b', True), ('b', False), ('n',)]
    for a in kinds:
        for b in kinds:
            out.append(dict(fam=f"leaf-{a}-{b}", A=a, B=b, dict='auto', list='on', weight=3, alpha=3 if tier == 'quick' else 4))
    # containers holding mixed kinds
    mixed = [
        ('mix-list', L(I(), ('s', 1), ('b', True)), L(('s', 1), I(), I())),
        ('mix-list2', L(('n',), I(2)), L(('s', 2), ('n',))),
        ('mix-list3', L(('s', 0), I()), L(I(), ('s', 0))),
        ('mix-dict', D(I(), ('s', 1)), D(('s', 1), ('b', True))),
        ('mix-dict2', D(('n',), ('s', 2)), D(('s', 0), I(2))),
    ]
    for name, A, B_ in mixed:
        for st in ('auto', 'none'):
            out.append(dict(fam=name, A=A, B=B_, dict=st, list='on', weight=8, alpha=3))
    out += th.tree_jobs(tier)
    return out


META = dict(functions=th.TREE_FUNCTIONS + ["graphtage.levenshtein.levenshtein_distance (summary == textbook DP; == 0 iff equal)",
                                            "LeafNode.__eq__ / LeafNode.edits / StringNode.edits / NullNode.edits on all kind pairs",
                                            "second engine: crosshair check on levenshtein_distance vs reference, symbolic str of length <= 3",
                                            "__main__.main: the had_edits expression (AST slice)"],
            stubs=th.TREE_STUBS, assumptions=th.TREE_ASSUME + ["equal-as-data oracle: same leaf kind (null/bool/int/str) and value, "
                                                               "lists position-wise, mappings as key->value functions"],
            files=th.TREE_FILES + ["graphtage/__main__.py"],
            outside=["floats (str(float) is C code)", "the process exit status of the installed command (only the expression it is "
                     "computed from)", "text longer than the bound"])
REGIONS = dict(mset_duplicates=lambda w, f: th.matcher_collapse_region(w))


def bounds_text(tier):
    extra = '' if tier == 'quick' else ' plus 5 x 0..3 and 0..3 x 5'
    return (f"kernel: all string pairs of lengths 0..4 x 0..4{extra} (every character symbolic, any alphabet); leaf pairs: 10 kinds x 10 "
            "kinds (int 1-3 digits, str 0-3 letters, true, false, null); mixed-kind containers; trees: " + th.tree_bounds_text(tier))


def pre(tier, seed):
    from .. import conformance
    r = conformance.tree_pre(seed)
    try:
        _, text = had_edits_fn()
        r['info']['had_edits_expression'] = text
    except Exception as ex:   # noqa
        r['errors'].append(str(ex))
    return r
