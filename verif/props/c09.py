"""C09 -- the same data compares as equal regardless of input file format (JSON, JSON5, YAML, plist).

The four Filetype.build_tree implementations are executed for real; their parsers (json / json5 / libyaml / plistlib --
C code and file I/O) are replaced by loader stubs that return the *same symbolic Python value* for the same path, which is
the loaders' contract for data expressible in every format.  What differs afterwards -- and is checked -- is how each
format turns the value and the build options into a tree (wrappers, option plumbing, quoting flags).
"""
import itertools

from .. import common, tree_harness as th
from ..common import PATCHES
from ..tree_harness import guarded, B, L, I, D
from ..symx.core import Engine

PROP = "C09"
FORMATS = ['json', 'json5', 'yaml', 'plist']
DOCS = {}
_inst = [False]


class _Stream:
    def __init__(self, path):
        self.path = path

    def __enter__(self):
        return self

    def __exit__(self, *a):
        return False


def _open(path, *a, **k):
    if path not in DOCS:
        raise FileNotFoundError(path)
    return _Stream(path)


class _ModProxy:
    def __init__(self, real, **over):
        self._real = real
        self._over = over

    def __getattr__(self, k):
        if k in self._over:
            return self._over[k]
        return getattr(self._real, k)


LOADER = common.Patches()      # separate registry: loader stubs stay in force during replay as well (no files involved)


def install_loaders():
    if _inst[0]:
        return
    import graphtage.json as gj
    import graphtage.yaml as gy
    import graphtage.plist as gp
    LOADER.set(gj, 'open', _open)
    LOADER.set(gj, 'json', _ModProxy(gj.json, load=lambda f, *a, **k: DOCS[f.path]))
    LOADER.set(gj, 'json5', _ModProxy(gj.json5, load=lambda f, *a, **k: DOCS[f.path]))
    LOADER.set(gy, 'open', _open)
    LOADER.set(gy, 'load_all', lambda stream, Loader=None: iter([DOCS[stream.path]]))
    LOADER.set(gp, 'open', _open)
    LOADER.set(gp, 'load', lambda stream, *a, **k: DOCS[stream.path])
    LOADER.install()
    _inst[0] = True


def load(fmt, name, obj, opts):
    import graphtage
    DOCS[name] = obj
    return graphtage.FILETYPES_BY_TYPENAME[fmt].build_tree(name, opts)


def cost_of(A, Bn):
    d = A.diff(Bn)
    return d.edited_cost(), d


@guarded
def body(A, Bn, objA, objB, job):
    """A, Bn (built by json.build_tree) serve as the JSON/JSON baseline; the pair under test is (f1, f2)."""
    install_loaders()
    f1, f2 = (job.get('extra') or {}).get('formats', ['json', 'plist'])
    fails = []
    opts = th.build_options(job.get('dict', 'auto'), job.get('list', 'on'))
    base, _ = cost_of(load('json', 'a.json', objA, opts), load('json', 'b.json', objB, opts))
    T1 = load(f1, 'a.' + f1, objA, opts)
    T2 = load(f2, 'b.' + f2, objB, opts)
    c, d = cost_of(T1, T2)
    site = f"{f1}->{f2}"
    if not B(c == base):
        fails.append(dict(tag='cost-depends-on-format', site=site, detail=f"{th.val(c)} vs json/json {th.val(base)}"))
    # the same data in two formats: equal, zero cost, exit status 0
    S1 = load(f1, 'a.' + f1, objA, opts)
    S2 = load(f2, 'a2.' + f2, objA, opts)
    c0, d0 = cost_of(S1, S2)
    if not B(c0 == 0):
        fails.append(dict(tag='same-data-positive-cost', site=site, detail=f"cost {th.val(c0)}"))
    if any(any(e.has_non_zero_cost() for e in n.edit_list) for n in d0.dfs()):
        fails.append(dict(tag='same-data-exit-status-1', site=site, detail=None))
    return fails


def in_to_plist_region(w, f=None):
    """listed finding: the second document is a plist and the first is not -> wholesale replacement"""
    fm = (w.get('extra') or {}).get('formats') or []
    return len(fm) == 2 and fm[1] == 'plist' and fm[0] != 'plist'


REGIONS = dict(to_plist=in_to_plist_region, mset_duplicates=lambda w, f: th.matcher_collapse_region(w))


def run_job(job):
    install_loaders()
    return th.run_tree_job(job, body, site_default='Filetype.build_tree', hang_tags=False)


def replay_witness(w):
    install_loaders()
    r = th.replay(w, body)
    return ', '.join(sorted(set(f['tag'] + '@' + str(f['site']) for f in r))) if r else None


def jobs(tier, seed):
    out = []
    shapes = [
        ('L22', L(I(), I(2)), L(I(2), I())),
        ('L32', L(I(), I(2), I()), L(I(), I())),
        ('D22', D(I(), I(2)), D(I(2), I())),
        ('D21', D(I(), I(2)), D(I(2))),
        ('DL', D(L(I(), I(2)), I()), D(L(I(), I()), I(2))),
        ('LD', L(D(I(), I(2)), I()), L(D(I(), I()), I(2))),
        ('S', L(('s', 2), I()), L(('s', 2), ('s', 1))),
        ('leaf', I(2), I(1)),
        # falsy / empty top-level documents (an empty stream and an empty document are different things)
        ('emptyL', L(), L(I())),
        ('emptyD', D(), D(I())),
        ('false', ('b', False), ('b', True)),
        ('emptyS', ('s', 0), ('s', 1)),
        ('null', ('n',), I()),
    ]
    if tier != 'quick':
        shapes += [('L33', L(I(), I(2), I()), L(I(2), I(), I(2))), ('D32', D(I(), I(2), I()), D(I(2), I())),
                   ('DD', D(D(I()), I(2)), D(D(I(2)), D(I())))]
    for name, A, B_ in shapes:
        for f1, f2 in itertools.product(FORMATS, repeat=2):
            if (f1, f2) == ('json', 'json'):
                continue
            for st in ('auto', 'none'):
                for lm in (('on', 'off', 'same') if 'L' in name else ('on',)):
                    if tier == 'quick' and st == 'none' and lm != 'on' and name not in ('L22', 'LD'):
                        continue
                    region = f2 == 'plist' and f1 != 'plist'
                    out.append(dict(fam=name, A=A, B=B_, dict=st, list=lm, weight=6, alpha=3 if tier == 'quick' else 4,
                                    extra=dict(formats=[f1, f2]), region_job=region))
    return out


META = dict(functions=th.TREE_FUNCTIONS + ["graphtage.json.JSON.build_tree / JSON5.build_tree", "graphtage.yaml.build_tree / YAML.build_tree",
                                            "graphtage.plist.build_tree / PLIST.build_tree / PLISTNode.edits", "FILETYPES_BY_TYPENAME registry"],
            stubs=th.TREE_STUBS + ["loader stubs: json.load / json5.load / yaml.load_all / plistlib.load / open() in graphtage.{json,yaml,"
                                   "plist} return the same symbolic value for the same path (the parsers are C code)"],
            assumptions=th.TREE_ASSUME + ["json, json5, yaml.CLoader and plistlib return equal Python values for data expressible in all four "
                                          "formats (the parsers themselves are outside the claim)"],
            files=th.TREE_FILES + ["graphtage/yaml.py"])


def bounds_text(tier):
    return ("13 (thorough 16) document shapes (lists, mappings, nestings, strings, scalars, empty/falsy top-level documents) x all 15 ordered format pairs other than "
            "json/json x {auto, none} x list modes; every leaf value symbolic; baseline = json/json on the same symbolic data")


def pre(tier, seed):
    from .. import conformance
    return conformance.tree_pre(seed)
