"""C06 -- both documents can be read back from the rendered diff (JSON rendering, colour printer).

Real code executed: TreeNode.diff, JSONFormatter and its sub-formatters, SequenceFormatter.print_SequenceNode (delimiter
marking), Match/Replace/Remove/Insert.print, GraphtageFormatter.print dispatch, StringFormatter.print_StringEdit, the real
Printer(ansi_color=True) with its CombiningMarkWriter writing into a StringIO.
The solver ranges over which script is rendered (all leaf values symbolic during the diff); when the script of a path is
complete the harness pins every leaf to its value in the path's model and swaps in the real int/str so that json.dumps
(C code) receives ordinary values (render-time pinning; container formatters never read leaf text).
"""
import io
import json
import re

from .. import common, tree_harness as th
from ..leaves import Pay
from ..tree_harness import guarded, B, L, I, D
from ..symx.core import Engine

PROP = "C06"
STRIKE, PLUS = '\u0336', '\u031f'
SGR = re.compile(r'\x1b\[([0-9;]*)m')


def concretize_nodes(eng, objs, roots, script):
    """render-time pinning"""
    from graphtage import LeafNode
    if eng is not None:
        for o in objs:
            th.pin_all(eng, o)
    seen = set()

    def fix(n):
        if n is None or id(n) in seen:
            return
        seen.add(id(n))
        if isinstance(n, LeafNode) and isinstance(n.object, Pay):
            n.object = n.object.concrete(eng)
    for r in roots:
        for n in r.dfs():
            fix(n)
    for s in th.walk(script):
        fix(s.f)
        fix(s.t)
        for n in (s.f, s.t):
            if n is not None and not n.is_leaf:
                for c in n.dfs():
                    fix(c)


_col = [False]


def no_colorama_init():
    """Printer(ansi_color=True) calls colorama.init(), which re-wraps sys.stdout/sys.stderr on every call; creating hundreds
    of printers in one process would nest the wrappers until the interpreter's recursion limit (a harness artefact: the
    command creates one printer).  Terminal set-up is environment: stubbed to a no-op, also during replays."""
    if _col[0]:
        return
    import graphtage.printer as gpr

    class _C:
        def __getattr__(self, k):
            return getattr(_real, k)

        @staticmethod
        def init(*a, **k):
            return None
    _real = gpr.colorama
    gpr.colorama = _C()
    _col[0] = True


def render(d, join_lists, join_dict_items):
    no_colorama_init()
    from graphtage.printer import Printer
    from graphtage.json import JSONFormatter
    out = io.StringIO()
    pr = Printer(out_stream=out, ansi_color=True, quiet=True, options=dict(join_lists=join_lists, join_dict_items=join_dict_items))
    JSONFormatter.DEFAULT_INSTANCE.print(pr, d)
    pr.flush()
    return out.getvalue()


def split_views(text):
    """-> (text of document 1, text of document 2, any_mark)"""
    pos = 0
    bg = None
    fg = None
    one, two = [], []
    marked = False
    i = 0
    n = len(text)
    while i < n:
        m = SGR.match(text, i)
        if m:
            for code in (m.group(1) or '0').split(';'):
                c = int(code or 0)
                if c == 0:
                    bg = fg = None
                elif c in (41, 42):
                    bg = c
                elif c == 49:
                    bg = None
                elif 30 <= c <= 37 or 90 <= c <= 97:
                    fg = c
                elif c == 39:
                    fg = None
            i = m.end()
            continue
        ch = text[i]
        i += 1
        marks = set()
        while i < n and text[i] in (STRIKE, PLUS):
            marks.add(text[i])
            i += 1
        removed = STRIKE in marks or bg == 41
        inserted = PLUS in marks or bg == 42
        if removed or inserted:
            marked = True
        elif fg == 36:
            continue            # the cyan ' -> ' between the old and the new value
        if not inserted:
            one.append(ch)
        if not removed:
            two.append(ch)
    return ''.join(one), ''.join(two), marked


def normalise(t):
    t = re.sub(r'\s+', '', t)
    prev = None
    while prev != t:
        prev = t
        t = t.replace(',,', ',').replace('[,', '[').replace(',]', ']').replace('{,', '{').replace(',}', '}')
    return t.strip(',')


def to_plain(o):
    if isinstance(o, th.PList):
        return to_plain(o.root)
    if isinstance(o, th.MSet):
        return [to_plain(c) for c in o]
    if isinstance(o, list):
        return [to_plain(c) for c in o]
    if isinstance(o, dict):
        return {str(to_plain(k)): to_plain(v) for k, v in o.items()}
    return o


@guarded
def body(A, Bn, objA, objB, job):
    fails = []
    ex = job.get('extra') or {}
    eng = Engine.cur
    d = A.diff(Bn)
    d.edited_cost()
    top = d.edit_list[0]
    script = th.extract(top)
    equal = B(th.obj_equal(objA, objB))
    concretize_nodes(eng, [objA, objB], [d, Bn], script)
    pa = to_plain(th.from_witness(th.concretize(eng, objA)) if eng is not None else objA)
    pb = to_plain(th.from_witness(th.concretize(eng, objB)) if eng is not None else objB)
    text = render(d, ex.get('join_lists', False), ex.get('join_dict_items', False))
    one, two, marked = split_views(text)
    for name, view, want in (('first', one, pa), ('second', two, pb)):
        try:
            got = json.loads(normalise(view))
        except ValueError:
            fails.append(dict(tag=f'{name}-document-unparseable', site='JSONFormatter', detail=normalise(view)[:80]))
            continue
        if got != want:
            fails.append(dict(tag=f'{name}-document-not-recovered', site='JSONFormatter',
                              detail=f"read {json.dumps(got)[:60]} expected {json.dumps(want)[:60]}"))
    if marked == equal:
        fails.append(dict(tag='marks-iff-different', site='JSONFormatter', detail=f"marks={marked} equal={equal}"))
    return fails


def run_job(job):
    return th.run_tree_job(job, body, site_default='JSONFormatter', hang_tags=False)


def replay_witness(w):
    r = th.replay(w, body)
    return ', '.join(sorted(set(f['tag'] + '@' + str(f['site']) for f in r))) if r else None


def jobs(tier, seed):
    out = []
    skip = ['mset', 'x-mset', 'plist']
    base = th.tree_jobs(tier, skip=skip)
    layouts = [(False, False), (True, True)] if tier == 'quick' else [(False, False), (True, False), (False, True), (True, True)]
    for j in base:
        if tier == 'quick' and j['dict'] == 'match' and j['weight'] > 9:
            continue
        for jl, jd in layouts:
            if tier == 'quick' and (jl, jd) != (False, False) and j['weight'] > 9:
                continue
            jj = dict(j)
            jj['extra'] = dict(join_lists=jl, join_dict_items=jd)
            out.append(jj)
    strs = [('S-22', ('s', 2), ('s', 2)), ('S-32', ('s', 3), ('s', 2)), ('LS', L(('s', 2), I()), L(('s', 2), ('s', 1))),
            ('DS', D(('s', 2)), D(('s', 2))),
            # characters that need escaping inside JSON strings (quote, backslash, newline) in values and keys
            ('SX-22', ('sc', 2, 'a"\\\n'), ('sc', 2, 'a"\\\n')), ('SX-12', ('sc', 1, 'a"\\'), ('sc', 2, 'a"\\')),
            ('LSX', L(('sc', 2, 'a"\\'), I()), L(('sc', 2, 'a"\\'), I(2))),
            ('DKX', ('dict', [(('sc', 1, 'a"\\'), I())]), ('dict', [(('sc', 1, 'a"\\'), I(2))]))]
    for name, A, B_ in strs:
        out.append(dict(fam=name, A=A, B=B_, dict='auto', list='on', weight=10, alpha=3, extra=dict(join_lists=False, join_dict_items=False)))
    return out


META = dict(functions=th.TREE_FUNCTIONS + ["graphtage.json.JSONFormatter / JSONListFormatter / JSONDictFormatter / JSONStringFormatter",
                                            "sequences.SequenceFormatter.print_SequenceNode", "edits.Match/Replace/Remove/Insert.print",
                                            "tree.GraphtageFormatter.print", "graphtage.StringFormatter.print_StringEdit/write_char",
                                            "printer.Printer / CombiningMarkWriter / ANSIContext (real, writing to a StringIO)"],
            stubs=th.TREE_STUBS + ["colorama.init() -> no-op (terminal set-up)", "render-time pinning: leaves are fixed to the path's model values before the formatter runs (json.dumps is C)"],
            assumptions=th.TREE_ASSUME + ["container formatters are opaque to leaf text (only StringFormatter reads characters)",
                                          "removed = strike mark or red background, inserted = under-plus mark or green background, the cyan "
                                          "' -> ' is a separator; dangling commas are normalised ('separator placement aside')"],
            files=th.TREE_FILES + ["graphtage/json.py", "graphtage/printer.py", "graphtage/formatter.py"],
            outside=["non-ASCII characters and documents that contain the marks themselves; strings longer than 3 characters", "multiset and "
                     "plist renderings"])
REGIONS = dict(mset_duplicates=lambda w, f: th.matcher_collapse_region(w))


def bounds_text(tier):
    return ("tree families of C01 without multisets/plist x layouts (quick: default and fully condensed; thorough: all four) + string "
            "leaves of 2-3 letters; the diff runs with all leaf values symbolic, rendering with the path's model values")


def pre(tier, seed):
    from .. import conformance
    return conformance.tree_pre(seed)
