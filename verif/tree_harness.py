"""Shared tree harness (C01-C10, C13): builds two documents with symbolic leaves through the real
``graphtage.json.build_tree``, runs the real diff engine, and exposes the run to per-property oracles.

The same harness code runs (a) under symx with Pay leaves and the stubs of stubs.py, and (b) in *replay* mode on
concrete documents with every stub removed (PATCHES.pristine()); oracles use ``B()`` for every truth value, so they
are decided by z3 in (a) and are ordinary booleans in (b).
"""
import builtins
import itertools
import logging

import z3

from . import common, stubs, leaves
from .common import PATCHES
from .leaves import Pay, fresh_pay
from .symx.core import Engine, B, SBool, SInt, Unsupported, Infeasible, PathAbort, sym_and, sym_or, sym_not, explore

logging.disable(logging.CRITICAL)

_INSTALLED = [False]
TICKS = [0]


def install(quiet=False):
    """Idempotent: stubs, leaf shims, watchdog tick on Range construction."""
    if _INSTALLED[0]:
        return
    pr = stubs.install_core(quiet=quiet)
    leaves.install_leaves()
    import graphtage.bounds as gb
    orig_init = gb.Range.__init__

    def range_init(self, *a, **k):
        eng = Engine.cur
        if eng is not None:
            eng.tick()
        orig_init(self, *a, **k)
    # permanent (not in PATCHES): a pure counter, behaviour-neutral, also active in replays
    gb.Range.__init__ = range_init
    _INSTALLED[0] = True
    return pr


def set_quiet(q):
    import graphtage.levenshtein as lev
    import graphtage.tree as gtree
    lev.DEFAULT_PRINTER.quiet = q
    gtree.DEFAULT_PRINTER.quiet = q


# ------------------------------------------------------------------ documents
class MSet(list):
    """marker: build a MultiSetNode of these children (library API; no file format produces one directly)"""


class PList:
    def __init__(self, root):
        self.root = root


def sym_obj(eng, spec, name, alpha, kalpha=6):
    """spec -> python object tree with Pay leaves.  spec grammar:
    ('i', L) int leaf of L digits | ('s', L) str leaf of L letters | ('b', v) | ('n',) |
    ('list', [spec..]) | ('mset', [spec..]) | ('dict', [(klen, spec)..]) | ('plist', spec)"""
    k = spec[0]
    if k == 'i':
        return fresh_pay(eng, name, spec[1], 'int', alpha)
    if k == 's':
        return fresh_pay(eng, name, spec[1], 'str', alpha)
    if k == 'sc':           # string over an explicit character set, e.g. ('sc', 2, 'ab"\\')
        p = fresh_pay(eng, name, spec[1], 'str', 1)
        cs = []
        for i in range(spec[1]):
            v = eng.fresh_int(f"{name}_c{i}")
            eng.assume(z3.Or(*[v.e == ord(ch) for ch in spec[2]]))
            cs.append(v.e)
        return Pay(cs, name, 'str')
    if k == 'b':
        return bool(spec[1])
    if k == 'n':
        return None
    if k == 'list':
        return [sym_obj(eng, s, f"{name}{i}", alpha, kalpha) for i, s in enumerate(spec[1])]
    if k == 'mset':
        m = MSet(sym_obj(eng, s, f"{name}{i}", alpha, kalpha) for i, s in enumerate(spec[1]))
        if len(spec) < 3 or spec[2] != 'dups':
            # region of the listed finding KF-mset-duplicates is excluded here and explored by dedicated jobs
            for x, y in itertools.combinations(m, 2):
                r = obj_equal(x, y)
                eng.assume(z3.Not(r.e) if builtins.isinstance(r, SBool) else (not r))
        return m
    if k == 'dict':
        # key alphabet >= number of keys of both mappings, so that 'no key shared' .. 'all keys shared' are all realisable
        keys = [leaves.pay_of_text(kl) if builtins.isinstance(kl, str) else
                (sym_obj(eng, kl, f"{name}k{i}", alpha, kalpha) if builtins.isinstance(kl, tuple) else
                 fresh_pay(eng, f"{name}k{i}", kl, 'str', kalpha))
                for i, (kl, _) in enumerate(spec[1])]      # a str key spec is a concrete key, a tuple a leaf spec
        for x, y in itertools.combinations(keys, 2):
            r = (x == y)
            eng.assume(z3.Not(r.e) if builtins.isinstance(r, SBool) else (not r))
        vals = [sym_obj(eng, vs, f"{name}v{i}", alpha, kalpha) for i, (_, vs) in enumerate(spec[1])]
        return dict(zip(keys, vals))
    if k == 'plist':
        return PList(sym_obj(eng, spec[1], name + 'r', alpha, kalpha))
    raise ValueError(spec)


def concretize(eng, obj):
    """Pay-leaved object -> JSON-able description {'t':..} that to_concrete() turns back into python objects."""
    if builtins.isinstance(obj, Pay):
        return obj.concrete(eng)
    if builtins.isinstance(obj, MSet):
        return {'__mset__': [concretize(eng, c) for c in obj]}
    if builtins.isinstance(obj, PList):
        return {'__plist__': concretize(eng, obj.root)}
    if builtins.isinstance(obj, list):
        return [concretize(eng, c) for c in obj]
    if builtins.isinstance(obj, dict):
        return {'__dict__': [[concretize(eng, k), concretize(eng, v)] for k, v in obj.items()]}
    return obj


def from_witness(w):
    if builtins.isinstance(w, dict):
        if '__mset__' in w:
            return MSet(from_witness(c) for c in w['__mset__'])
        if '__plist__' in w:
            return PList(from_witness(w['__plist__']))
        if '__dict__' in w:
            return {from_witness(k): from_witness(v) for k, v in w['__dict__']}
    if builtins.isinstance(w, list):
        return [from_witness(c) for c in w]
    return w


def pin_all(eng, obj):
    if builtins.isinstance(obj, Pay):
        obj.pin(eng)
    elif builtins.isinstance(obj, PList):
        pin_all(eng, obj.root)
    elif builtins.isinstance(obj, dict):
        for k, v in obj.items():
            pin_all(eng, k)
            pin_all(eng, v)
    elif builtins.isinstance(obj, list):
        for c in obj:
            pin_all(eng, c)


def build_options(dict_strategy='auto', list_mode='on'):
    from graphtage import BuildOptions
    return BuildOptions(
        allow_key_edits=dict_strategy != 'none',
        auto_match_keys=dict_strategy == 'auto',
        allow_list_edits=list_mode != 'off',
        allow_list_edits_when_same_length=list_mode != 'same',
    )


def to_tree(obj, options):
    """Real constructors only: graphtage.json.build_tree for JSON-like data; MultiSetNode / PLISTNode wrappers."""
    import graphtage.json as gj
    from graphtage import MultiSetNode
    from graphtage.plist import PLISTNode
    if builtins.isinstance(obj, MSet):
        return MultiSetNode([to_tree(c, options) for c in obj])
    if builtins.isinstance(obj, PList):
        return PLISTNode(to_tree(obj.root, options))
    return gj.build_tree(obj, options)


def obj_equal(a, b):
    """'Equal as data' oracle over Pay-leaved (or concrete) python objects: same leaf kind and value; lists
    position-wise; mappings as key->value functions; multisets as multisets; plist wrapper transparent.
    Returns a (possibly symbolic) truth value."""
    if builtins.isinstance(a, PList):
        a = a.root
    if builtins.isinstance(b, PList):
        b = b.root
    if builtins.isinstance(a, Pay) or builtins.isinstance(b, Pay):
        if not (builtins.isinstance(a, Pay) and builtins.isinstance(b, Pay)):
            return False
        return a == b
    if builtins.isinstance(a, MSet) != builtins.isinstance(b, MSet):
        return False
    if builtins.isinstance(a, MSet):
        if len(a) != len(b):
            return False
        # multiset equality: some bijection with pairwise equal members (sizes <= 4: expanded)
        alts = []
        for perm in itertools.permutations(range(len(b))):
            alts.append(sym_and(*[obj_equal(a[i], b[j]) for i, j in enumerate(perm)]))
        return sym_or(*alts) if alts else True
    if builtins.isinstance(a, list) or builtins.isinstance(b, list):
        if not (builtins.isinstance(a, list) and builtins.isinstance(b, list)) or len(a) != len(b):
            return False
        return sym_and(*[obj_equal(x, y) for x, y in zip(a, b)])
    if builtins.isinstance(a, dict) or builtins.isinstance(b, dict):
        if not (builtins.isinstance(a, dict) and builtins.isinstance(b, dict)) or len(a) != len(b):
            return False
        ai, bi = list(a.items()), list(b.items())
        alts = []
        for perm in itertools.permutations(range(len(bi))):
            alts.append(sym_and(*[sym_and(obj_equal(ai[i][0], bi[j][0]), obj_equal(ai[i][1], bi[j][1]))
                                  for i, j in enumerate(perm)]))
        return sym_or(*alts) if alts else True
    # concrete scalars: bool / None / int / str -- kind matters (True != 1, 1 != "1")
    return type(a) is type(b) and a == b


# ------------------------------------------------------------------ script extraction
def children_of(node):
    from graphtage import ListNode, KeyValuePairNode
    from graphtage.plist import PLISTNode
    if builtins.isinstance(node, KeyValuePairNode):
        return [node.key, node.value]
    if builtins.isinstance(node, PLISTNode):
        return [node.root]
    if builtins.isinstance(node, ListNode):
        return list(node._children)
    return list(node)


class S:
    """one node of the extracted script tree"""
    __slots__ = ('edit', 'cls', 'kind', 'f', 't', 'subs')

    def __init__(self, edit, kind, f, t, subs):
        self.edit = edit
        self.cls = type(edit).__name__
        self.kind = kind      # 'insert' | 'remove' | 'pair'
        self.f = f
        self.t = t
        self.subs = subs


def extract(edit, depth=0):
    from graphtage.edits import Insert, Remove
    from graphtage import StringEdit
    if depth > 12:
        raise Unsupported("script deeper than 12")
    if builtins.isinstance(edit, Insert):
        return S(edit, 'insert', None, edit.to_insert, None)
    if builtins.isinstance(edit, Remove):
        return S(edit, 'remove', edit.from_node, None, None)
    subs = None
    if builtins.isinstance(edit, StringEdit):
        subs = [extract(s, depth + 1) for s in edit.edit_distance.edits()]
    elif hasattr(edit, 'edits'):
        subs = [extract(s, depth + 1) for s in edit.edits()]
    return S(edit, 'pair', edit.from_node, edit.to_node, subs)


def walk(s):
    yield s
    for c in (s.subs or []):
        yield from walk(c)


def same_by_value(xs, ys):
    """greedy multiset match by node equality (an equivalence relation, so greedy is complete)"""
    ys = list(ys)
    for x in xs:
        for k, y in enumerate(ys):
            if x is y or B(x == y):
                del ys[k]
                break
        else:
            return False
    return not ys


def ids(xs):
    return [id(x) for x in xs]


# ------------------------------------------------------------------ C01 oracle: accounting
def check_accounting(s, fails, path="top"):
    """Every child of the from-container appears exactly once among the from-sides of pair/remove sub-edits, every
    child of the to-container exactly once among the to-sides of pair/insert sub-edits; list order is kept."""
    from graphtage.levenshtein import EditDistance
    from graphtage.sequences import FixedLengthSequenceEdit
    from graphtage.multiset import MultiSetEdit
    from graphtage.graphtage import FixedKeyDictNodeEdit, KeyValuePairEdit
    from graphtage.edits import EditCollection
    from graphtage import StringEdit
    from graphtage.plist import PLISTNode
    if s.subs is None:
        return
    e = s.edit
    froms = [c.f for c in s.subs if c.kind != 'insert']
    tos = [c.t for c in s.subs if c.kind != 'remove']
    site = s.cls
    if builtins.isinstance(e, StringEdit):
        pass        # character level: C11's subject
    elif builtins.isinstance(e, (EditDistance, FixedLengthSequenceEdit)):
        fch, tch = children_of(s.f), children_of(s.t)
        if sorted(ids(froms)) != sorted(ids(fch)):
            fails.append(dict(tag='from-accounting', site=site, detail=f"{path}: {len(froms)} from-sides for {len(fch)} children"))
        elif ids(froms) != ids(fch):
            fails.append(dict(tag='from-order', site=site, detail=path))
        if sorted(ids(tos)) != sorted(ids(tch)):
            fails.append(dict(tag='to-accounting', site=site, detail=f"{path}: {len(tos)} to-sides for {len(tch)} children"))
        elif ids(tos) != ids(tch):
            fails.append(dict(tag='to-order', site=site, detail=path))
        for c in s.subs:
            if c.kind == 'insert' and c.edit.insert_into is not s.f:
                fails.append(dict(tag='insert-target', site=site, detail=path))
            if c.kind == 'remove' and c.edit.to_node is not s.f:
                fails.append(dict(tag='remove-target', site=site, detail=path))
    elif builtins.isinstance(e, MultiSetEdit):
        fch, tch = children_of(s.f), children_of(s.t)
        if len(froms) != len(fch) or not same_by_value(froms, fch):
            fails.append(dict(tag='from-accounting', site=site, detail=f"{path}: {len(froms)} from-sides for {len(fch)} children"))
        if len(tos) != len(tch) or not same_by_value(tos, tch):
            fails.append(dict(tag='to-accounting', site=site, detail=f"{path}: {len(tos)} to-sides for {len(tch)} children"))
    elif builtins.isinstance(e, FixedKeyDictNodeEdit):
        fch, tch = children_of(s.f), children_of(s.t)
        if sorted(ids(froms)) != sorted(ids(fch)):
            fails.append(dict(tag='from-accounting', site=site, detail=path))
        if sorted(ids(tos)) != sorted(ids(tch)):
            fails.append(dict(tag='to-accounting', site=site, detail=path))
    elif builtins.isinstance(e, KeyValuePairEdit):
        if ids(froms) != ids([s.f.key, s.f.value]) or ids(tos) != ids([s.t.key, s.t.value]):
            fails.append(dict(tag='kvp-accounting', site=site, detail=path))
    elif builtins.isinstance(e, EditCollection) and builtins.isinstance(s.f, PLISTNode):
        rest = [c for c in s.subs if not (c.f is s.f and c.t is s.t)]
        if len(rest) != 1 or rest[0].f is not s.f.root or rest[0].t is not (s.t.root if builtins.isinstance(s.t, PLISTNode) else s.t):
            fails.append(dict(tag='plist-accounting', site=site, detail=path))
    else:
        fails.append(dict(tag='unknown-compound', site=site, detail=path))
    for i, c in enumerate(s.subs):
        check_accounting(c, fails, f"{path}/{i}")


def check_annotations(d, top, fails):
    """EditedTreeNode annotations returned by TreeNode.diff agree with the script."""
    from graphtage.tree import EditedTreeNode
    if not builtins.isinstance(d, EditedTreeNode):
        fails.append(dict(tag='diff-not-edited', site='TreeNode.diff', detail=None))
        return
    for s in walk(top):
        if s.subs is None or s.cls == 'StringEdit' or s.cls == 'KeyValuePairEdit':
            continue
        if not builtins.isinstance(s.f, EditedTreeNode):
            continue
        kids = children_of(s.f)
        mult = {}
        for ch in kids:           # a multiset keeps ONE object per class of equal members, repeated by its count
            mult[id(ch)] = mult.get(id(ch), 0) + 1
        done = set()
        for ch in kids:
            if id(ch) in done:
                continue
            done.add(id(ch))
            if not builtins.isinstance(ch, EditedTreeNode):
                fails.append(dict(tag='child-not-edited', site=s.cls, detail=None))
                continue
            if len(ch.edit_list) != mult[id(ch)]:
                fails.append(dict(tag='child-edit-count', site=s.cls,
                                  detail=f"child occurring {mult[id(ch)]}x carries {len(ch.edit_list)} edits ({[type(x).__name__ for x in ch.edit_list]})"))
        ins = [c.t for c in s.subs if c.kind == 'insert']
        if sorted(ids(ins)) != sorted(ids(s.f.inserted)):
            fails.append(dict(tag='inserted-annotation', site=s.cls, detail=f"{len(ins)} inserts vs {len(s.f.inserted)} annotated"))
        for c in s.subs:
            if c.kind == 'remove' and builtins.isinstance(c.f, EditedTreeNode) and not c.f.removed:
                fails.append(dict(tag='removed-annotation', site=s.cls, detail=None))
            if c.kind == 'pair' and builtins.isinstance(c.f, EditedTreeNode) and c.f.removed and mult.get(id(c.f), 1) == 1:
                fails.append(dict(tag='removed-annotation', site=s.cls, detail="paired node marked removed"))


def rebuild(s, side):
    """Plain-value reconstruction of one side from the script ('discard inserts' / 'discard removes')."""
    from graphtage import ListNode, MultiSetNode, KeyValuePairNode, LeafNode
    from graphtage.graphtage import MappingNode
    from graphtage.plist import PLISTNode
    node = s.f if side == 'from' else s.t
    if s.subs is None or s.cls == 'StringEdit':
        return node
    parts = [rebuild(c, side) for c in s.subs if c.kind != ('insert' if side == 'from' else 'remove')]
    return ('rebuilt', type(node).__name__, parts)


# ------------------------------------------------------------------ C03 oracle: cost = sum of parts
def tighten_all(edit, cap=2000):
    n = 0
    while edit.tighten_bounds():
        n += 1
        if n > cap:
            raise PathAbort("tighten-cap")
    return n


def check_sums(s, fails, path="top"):
    if s.subs is None:
        return
    b = s.edit.bounds()
    if not B(b.lower_bound == b.upper_bound):
        fails.append(dict(tag='not-definitive', site=s.cls, detail=path))
        return
    if s.cls == 'StringEdit':
        total = 0
        for c in s.subs:
            total = total + c.edit.bounds().upper_bound
    else:
        total = 0
        for c in s.subs:
            cb = c.edit.bounds()
            if not B(cb.lower_bound == cb.upper_bound):
                fails.append(dict(tag='not-definitive', site=c.cls, detail=path))
                return
            total = total + cb.upper_bound
    if not B(b.upper_bound == total):
        fails.append(dict(tag='sum-mismatch', site=s.cls, detail=f"{path}: reported {val(b.upper_bound)} parts {val(total)}"))
    for i, c in enumerate(s.subs):
        check_sums(c, fails, f"{path}/{i}")


def val(x):
    eng = Engine.cur
    if builtins.isinstance(x, (SInt, SBool)):
        try:
            return eng.value(x) if eng is not None else '?'
        except Exception:   # noqa
            return '?'
    return x


# ------------------------------------------------------------------ C04 monitor
class Monitor:
    """Wraps tighten_bounds/bounds of every Bounded class from outside.  Passive: records the intervals the engine itself
    requests.  Active: additionally calls bounds() before and after every tighten_bounds() (public API, but not neutral)."""

    CLASSES = None

    def __init__(self):
        self.log = []           # (cls, obj, before, ret, after)
        self.seen = {}          # id(obj) -> (obj, [ranges reported through bounds()])
        self.mode = None
        self.depth = 0
        self.installed = False

    def install(self):
        if self.installed:
            return
        from graphtage.levenshtein import EditDistance
        from graphtage.multiset import MultiSetEdit
        from graphtage.matching import WeightedBipartiteMatcher
        from graphtage.sequences import FixedLengthSequenceEdit
        from graphtage.graphtage import KeyValuePairEdit, FixedKeyDictNodeEdit, StringEdit
        from graphtage.edits import EditCollection, PossibleEdits
        from graphtage.search import IterativeTighteningSearch
        Monitor.CLASSES = [EditDistance, MultiSetEdit, WeightedBipartiteMatcher, FixedLengthSequenceEdit,
                           KeyValuePairEdit, EditCollection, StringEdit, PossibleEdits, IterativeTighteningSearch]
        mon = self
        for cls in Monitor.CLASSES:
            self._wrap(cls)
        self.installed = True

    def _wrap(self, cls):
        mon = self
        otb = cls.__dict__.get('tighten_bounds')
        ob = cls.__dict__.get('bounds')
        name = cls.__name__
        if otb is not None:
            def tb(self_, *a, **k):
                if mon.mode is None:
                    return otb(self_, *a, **k)
                before = after = None
                if mon.mode == 'active':
                    mon.depth += 1
                    try:
                        before = mon._raw_bounds(self_)
                    finally:
                        mon.depth -= 1
                r = otb(self_, *a, **k)
                if mon.mode == 'active':
                    mon.depth += 1
                    try:
                        after = mon._raw_bounds(self_)
                    finally:
                        mon.depth -= 1
                mon.log.append((name, self_, before, r, after))
                return r
            tb.__wrapped__ = otb
            cls.tighten_bounds = tb
        if ob is not None:
            def bnds(self_, *a, **k):
                r = ob(self_, *a, **k)
                if mon.mode is not None:
                    ent = mon.seen.get(id(self_))
                    if ent is None:
                        ent = mon.seen[id(self_)] = (self_, name, [])
                    ent[2].append((len(mon.log), r.lower_bound, r.upper_bound))
                return r
            bnds.__wrapped__ = ob
            cls.bounds = bnds

    @staticmethod
    def _raw_bounds(obj):
        return obj.bounds()

    def start(self, mode):
        self.log = []
        self.seen = {}
        self.mode = mode

    def stop(self):
        self.mode = None


MONITOR = Monitor()


def le(a, b):
    return B(a <= b)


def check_monitor(mon, fails, final=True):
    """R1 no widening between consecutive reported intervals of one object; R2 True => strictly smaller (active mode);
    R3 False => definitive (active mode) ; R4 final value inside every interval ever reported."""
    from graphtage.bounds import Infinity
    for oid, (obj, name, hist) in mon.seen.items():
        for (i0, l0, u0), (i1, l1, u1) in zip(hist, hist[1:]):
            if not (B(l1 >= l0) and B(u1 <= u0)):
                fails.append(dict(tag='R1-widened', site=name,
                                  detail=f"[{val(l0)},{val(u0)}] then [{val(l1)},{val(u1)}]"))
                break
    for name, obj, before, r, after in mon.log:
        if before is None or after is None:
            continue
        if builtins.isinstance(before.upper_bound, Infinity) or builtins.isinstance(before.lower_bound, Infinity):
            continue
        if r:
            if not B(sym_or(after.lower_bound > before.lower_bound, after.upper_bound < before.upper_bound)):
                valid = getattr(obj, 'valid', True)
                if valid:
                    fails.append(dict(tag='R2-true-without-progress', site=name,
                                      detail=f"[{val(before.lower_bound)},{val(before.upper_bound)}] -> [{val(after.lower_bound)},{val(after.upper_bound)}]"))
        else:
            if not B(after.lower_bound == after.upper_bound):
                valid = getattr(obj, 'valid', True)
                if valid:
                    fails.append(dict(tag='R3-false-not-definitive', site=name,
                                      detail=f"[{val(after.lower_bound)},{val(after.upper_bound)}]"))
    if final:
        for oid, (obj, name, hist) in mon.seen.items():
            if not hist:
                continue
            if not getattr(obj, 'valid', True):
                continue
            _, lf, uf = hist[-1]
            if builtins.isinstance(lf, Infinity) or builtins.isinstance(uf, Infinity) or not B(lf == uf):
                continue          # never driven to a point by the engine: nothing to compare against
            for (_, l, u) in hist:
                if builtins.isinstance(l, Infinity) or builtins.isinstance(u, Infinity):
                    continue
                if not (B(l <= lf) and B(lf <= u)):
                    fails.append(dict(tag='R4-final-outside-earlier-interval', site=name,
                                      detail=f"final {val(lf)} not in [{val(l)},{val(u)}]"))
                    break


# ------------------------------------------------------------------ running a pair
def drive_like_diff(edit, cap=5000):
    n = 0
    while edit.valid and not edit.is_complete() and edit.tighten_bounds():
        n += 1
        if n > cap:
            raise PathAbort("drive-cap")
    return n


REAL_ERRORS = (AssertionError, AttributeError, TypeError, ValueError, IndexError, KeyError, RecursionError,
               RuntimeError, StopIteration, ZeroDivisionError, NotImplementedError, OverflowError)


# ------------------------------------------------------------------ generic job driver
def max_keys(spec):
    k = spec[0]
    if k in ('sc', 'i', 's', 'b', 'n'):
        return 0
    if k == 'dict':
        return max([len(spec[1])] + [max_keys(v) for _, v in spec[1]])
    if k in ('list', 'mset'):
        return max([0] + [max_keys(c) for c in spec[1]])
    if k == 'plist':
        return max_keys(spec[1])
    return 0


def auto_kalpha(job):
    """key alphabet = keys of the largest mapping of A + keys of the largest mapping of B: every pattern of shared and
    unshared keys between two mappings is then realisable"""
    if job.get('kalpha'):
        return job['kalpha']
    return max(2, max_keys(job['A']) + max_keys(job['B']))


def run_tree_job(job, body, site_default='diff', path_wall_s=20, tick_cap=40000, budget=1500, max_fail=3,
                 hang_tags=True, quiet=False, witness_extra=None, extra_replay=None):
    """Explores one (family, options, shape) job.  ``body(A, B, objA, objB, job) -> [failure dict]`` is the property
    oracle over one run of the real engine; it is executed symbolically here and concretely in replay()."""
    install(quiet=quiet)
    set_quiet(job.get('quiet', quiet))
    MONITOR.install()
    alpha = job.get('alpha', 3)
    kalpha = auto_kalpha(job)
    samples = []
    counters = dict(exception_paths=0, hang_paths=0, oracle_reached=0)

    def fn(eng):
        stubs.LSA_MEMO = {}       # scipy is a function of its input: same symbolic table => same assignment on this path
        objA = sym_obj(eng, job['A'], 'a', alpha, kalpha)
        objB = sym_obj(eng, job['B'], 'b', alpha, kalpha)
        eng.notes['objs'] = (objA, objB)
        opts = build_options(job.get('dict', 'auto'), job.get('list', 'on'))
        A = to_tree(objA, opts)
        Bn = to_tree(objB, opts)
        return body(A, Bn, objA, objB, job)

    def on_path(eng, res, aborted):
        objA, objB = eng.notes['objs']
        wit = dict(A=concretize(eng, objA), B=concretize(eng, objB), dict=job.get('dict', 'auto'),
                   list=job.get('list', 'on'), quiet=job.get('quiet', quiet), extra=job.get('extra'))
        if witness_extra is not None:
            wit['extra'] = witness_extra(eng)
        if len(samples) < 2:
            samples.append(dict(A=wit['A'], B=wit['B'], dict=wit['dict'], list=wit['list']))
        fails = list(res or [])
        if res is not None and not aborted and not any(f['tag'].startswith('exception') for f in fails):
            counters['oracle_reached'] += 1
        if aborted:
            counters['hang_paths'] += 1
            if hang_tags:
                fails = [dict(tag='hang', site=site_default, detail=f"path aborted by {aborted} watchdog")]
            else:
                return None
        out = []
        if fails:
            rep = replay(wit, body, job, wall=job.get('replay_wall', 15))
            rtags = set(f['tag'] for f in rep)
            if extra_replay is not None and not (set(f['tag'] for f in fails) & rtags) and counters.get('extra_replays', 0) < 4:
                counters['extra_replays'] = counters.get('extra_replays', 0) + 1
                rtags |= set(extra_replay(wit, fails) or ())
            for f in fails:
                if f['tag'].startswith('exception'):
                    counters['exception_paths'] += 1
                f['witness'] = wit
                f['reproduced'] = (f['tag'] in rtags) or (f['tag'].split(':')[0] in set(t.split(':')[0] for t in rtags))
                f['replay_tags'] = sorted(rtags)
                out.append(f)
        return out

    st = explore(fn, on_path, budget_s=job.get('budget', budget), tick_cap=tick_cap, path_wall_s=job.get('path_wall_s', path_wall_s),
                 max_fail=max_fail, **common.split_args(job))
    st['samples'] = samples
    st['extra'] = counters
    if job.get('_stop_depth') is None and not job.get('_prefix'):
        st['twin_reached'] = counters['oracle_reached'] > 0      # reachability: the oracle's final assertion point was reached
    return dict(st)


def replay(wit, body, job=None, wall=15):
    """Concrete re-run with every stub/shim removed (progress bar output suppressed)."""
    job = dict(job or {})
    MONITOR.install()
    objA, objB = from_witness(wit['A']), from_witness(wit['B'])
    saved = Engine.cur
    Engine.cur = None
    try:
        with PATCHES.pristine():
            import graphtage.levenshtein as lev
            import graphtage.tree as gtree
            import graphtage.json as gj
            pr = stubs.StubPrinter(wit.get('quiet', False))
            old = (lev.DEFAULT_PRINTER, gtree.DEFAULT_PRINTER, gj.DEFAULT_PRINTER)
            lev.DEFAULT_PRINTER = gtree.DEFAULT_PRINTER = gj.DEFAULT_PRINTER = pr
            try:
                with common.wall_limit(wall):
                    opts = build_options(wit.get('dict', 'auto'), wit.get('list', 'on'))
                    A = to_tree(objA, opts)
                    Bn = to_tree(objB, opts)
                    job.setdefault('extra', wit.get('extra'))
                    job['dict'] = wit.get('dict', 'auto')
                    job['list'] = wit.get('list', 'on')
                    return body(A, Bn, objA, objB, job) or []
            except common.Timeout:
                return [dict(tag='hang', site='replay', detail=f'no result within {wall}s on the real code')]
            finally:
                lev.DEFAULT_PRINTER, gtree.DEFAULT_PRINTER, gj.DEFAULT_PRINTER = old
    finally:
        Engine.cur = saved


def guarded(fn):
    """Decorator for oracle bodies: real-code exceptions become failure records."""
    def w(A, Bn, objA, objB, job):
        try:
            return fn(A, Bn, objA, objB, job)
        except REAL_ERRORS as ex:
            import traceback
            tb = traceback.extract_tb(ex.__traceback__)
            where = next((f"{fr.filename.split('/')[-1]}:{fr.lineno}" for fr in reversed(tb) if '/graphtage/' in fr.filename), '?')
            return [dict(tag='exception:' + type(ex).__name__, site=where, detail=str(ex)[:200])]
    return w


# ------------------------------------------------------------------ shapes
def ileaves(n, pat):
    pats = {'a': [1, 2], 'b': [2, 1], 'c': [2, 2], 'd': [1, 1]}[pat]
    return [('i', pats[i % 2]) for i in range(n)]


def fam_list(n, m, pat='a', pat2=None):
    return ('list', ileaves(n, pat)), ('list', ileaves(m, pat2 or pat))


def fam_mset(n, m, pat='a', pat2=None, dups=False):
    if dups:
        return ('mset', ileaves(n, pat), 'dups'), ('mset', ileaves(m, pat2 or pat), 'dups')
    return ('mset', ileaves(n, pat)), ('mset', ileaves(m, pat2 or pat))


def fam_dict(n, m, pat='a', pat2=None):
    return (('dict', [(1, v) for v in ileaves(n, pat)]), ('dict', [(1, v) for v in ileaves(m, pat2 or pat)]))


# ------------------------------------------------------------------ job families (shared by the tree properties)
def L(*xs):
    return ('list', list(xs))


def I(n=1):
    return ('i', n)


def D(*vals, klen=1):
    return ('dict', [(klen, v) for v in vals])


def families(tier, want=None):
    """[(family-name, A-spec, B-spec, dict-strategies, list-modes, weight)]"""
    quick = tier == 'quick'
    out = []
    N = 3 if quick else 4
    pats = [('a', 'a'), ('a', 'b')] if quick else [('a', 'a'), ('a', 'b'), ('b', 'a')]
    for n in range(N + 1):
        for m in range(N + 1):
            if not quick and n + m > 6:
                continue
            for pa, pb in pats:
                A, B_ = fam_list(n, m, pa, pb)
                out.append((f"list{n}{m}{pa}{pb}", A, B_, ['auto'], ['on', 'off', 'same'], n * m + 1))
    Nm = 3
    mp = [('a', 'a'), ('a', 'b'), ('b', 'a')]
    for n in range(Nm + 1):
        for m in range(Nm + 1):
            if n + m > (5 if quick else 6):
                continue
            for pa, pb in mp:
                A, B_ = fam_mset(n, m, pa, pb)
                out.append((f"mset{n}{m}{pa}{pb}", A, B_, ['auto'], ['on'], n * m * 3 + 1))
    for n in range(4):
        for m in range(4):
            for pa, pb in mp:
                A, B_ = fam_dict(n, m, pa, pb)
                big = n + m >= 5
                if big and (pa, pb) != ('a', 'a'):
                    continue                      # the 5- and 6-key pairs only with one length pattern (path count)
                strategies = ['none']
                if n + m <= 4 or (not quick and n + m == 5):
                    strategies.append('auto')     # 5 keys under 'auto': ~2.4k paths (thorough); 6 keys: ~30k paths (not run)
                if n + m <= 3 or (n + m == 4 and (not quick or (pa, pb) == ('a', 'a'))):
                    strategies.append('match')
                for st in strategies:
                    w = (n * m * (8 if st == 'match' else (4 if st == 'auto' else 1))) + 1
                    out.append((f"dict{n}{m}{pa}{pb}", A, B_, [st], ['on'], w))
    # nested, depth 2
    nested = [
        ('LL-12-21', L(L(I()), L(I(), I(2))), L(L(I(), I()), L(I(2)))),
        ('LL-11-11', L(L(I(2)), L(I())), L(L(I()), L(I(2)))),
        ('LL-2-2', L(L(I(), I(2))), L(L(I(2), I()))),
        ('LL-21-2', L(L(I(), I()), L(I())), L(L(I(), I(2)))),
        ('LL-2-12', L(L(I(), I(2))), L(L(I()), L(I(2), I()))),    # one nested list meets partners of different and of equal length
        ('LLi-1i-i1', L(L(I()), I(2)), L(I(2), L(I()))),
        ('LiL', L(I(), L(I(), I(2))), L(I(), L(I(2), I()))),      # last cell of the outer list edit is itself a list edit
        ('LiL11', L(I(), L(I(), I())), L(I(), L(I(), I()))),      # ... with equal-size members (the D5 shape)
        ('LLs', L(L(I(), I()), I()), L(L(I(), I()), I())),        # first cell is a list edit, shared suffix possible
        ('LD', L(D(I(), I(2)), I()), L(D(I(), I()), I(2))),
        ('LD2', L(D(I()), D(I(2))), L(D(I(2)), D(I()), D(I()))),
        ('DL', D(L(I(), I(2)), I()), D(L(I(), I()), I(2))),
        ('DL2', D(L(I(), I(2))), D(L(I(2)), L(I()))),
        ('DD', D(D(I()), I(2)), D(D(I(2)), D(I()))),
        ('DD2', D(D(I(), I(2))), D(D(I(2)))),
    ]
    if not quick:
        nested += [
            ('LL-22-22', L(L(I(), I()), L(I(), I(2))), L(L(I(), I()), L(I(), I(2)))),
            ('LL-22-21', L(L(I(), I(2)), L(I(), I())), L(L(I(), I()), L(I(2)))),
            ('LLL', L(L(L(I()), I()), I()), L(L(L(I(2))), I())),
            ('LD3', L(D(I(), I(2)), D(I())), L(D(I(), I()), D(I(2)), I())),
            ('DD3', D(D(I(), I(2)), D(I())), D(D(I(2), I()), I())),
        ]
    for name, A, B_ in nested:
        for st in ['auto', 'none', 'match']:
            if st == 'match' and name not in ('DD2', 'DL2', 'LL-2-2'):
                continue
            for lm in (['on', 'off', 'same'] if 'L' in name else ['on']):
                if lm == 'same' and st != 'auto':
                    continue
                out.append((name, A, B_, [st], [lm], 20))
    # cross-kind and scalar kinds (Replace / kind-changing matches)
    cross = [
        ('x-list-dict', L(I(), I(2)), D(I(), I(2))),
        ('x-dict-list', D(I(), I(2)), L(I(), I(2))),
        ('x-int-list', I(2), L(I(2))),
        ('x-list-int', L(I()), I()),
        ('x-list-null', L(I(), ('n',)), L(('n',), I())),
        ('x-list-bool', L(I(), ('b', True)), L(('b', True), I())),
        ('x-list-bool2', L(('b', False), I(2)), L(I(), ('b', True), I())),
        ('x-dict-null', D(('n',), I()), D(I(), ('n',))),
        ('x-int-str', L(I(), ('s', 1)), L(('s', 1), I())),
        ('x-int-int', I(2), I(1)),
        ('x-str-str', ('s', 2), ('s', 2)),
        ('x-liststr', L(('s', 2), I()), L(('s', 2), ('s', 1))),
        ('x-mset-list', ('mset', [I(), I(2)]), L(I(), I(2))),
    ]
    for name, A, B_ in cross:
        out.append((name, A, B_, ['auto', 'none'], ['on'], 5))
    # plist wrappers (C09's subject; C01/C03/C04 cover the wrapper's EditCollection)
    for name, A, B_ in [('plist-LL', ('plist', L(I(), I(2))), ('plist', L(I(2), I()))),
                        ('plist-DD', ('plist', D(I(), I(2))), ('plist', D(I(2)))),
                        ('plist-L-x', ('plist', L(I(), I(2))), L(I(2), I()))]:
        out.append((name, A, B_, ['auto'], ['on'], 5))
    if want:
        out = [f for f in out if any(f[0].startswith(w) for w in want)]
    return out


def tree_jobs(tier, want=None, extra=None, skip=None):
    jobs = []
    for name, A, B_, strategies, modes, weight in families(tier, want):
        if skip and any(name.startswith(s) for s in skip):
            continue
        for st in strategies:
            for lm in modes:
                j = dict(fam=name, A=A, B=B_, dict=st, list=lm, weight=weight,
                         alpha=3 if tier == 'quick' else 4)
                if weight >= 20:
                    j['split_depth'] = 24 if weight < 37 else 45
                if extra:
                    j['extra'] = dict(extra)
                jobs.append(j)
    return jobs


KNOWN_DUP_JOBS = [
    dict(fam='mset-dups-32', A=('mset', ileaves(3, 'a'), 'dups'), B=('mset', ileaves(2, 'a'), 'dups'), weight=50, path_wall_s=6, replay_wall=6, region_job=True),
    dict(fam='mset-dups-22', A=('mset', ileaves(2, 'c'), 'dups'), B=('mset', ileaves(2, 'c'), 'dups'), weight=50, path_wall_s=6, replay_wall=6, region_job=True),
    dict(fam='mset-dups-33', A=('mset', ileaves(3, 'd'), 'dups'), B=('mset', ileaves(3, 'd'), 'dups'), weight=50, path_wall_s=6, replay_wall=6, region_job=True),
    dict(fam='mset-dups-31', A=('mset', ileaves(3, 'd'), 'dups'), B=('mset', ileaves(1, 'd'), 'dups'), weight=50, path_wall_s=6, replay_wall=6, region_job=True),
    dict(fam='mset-dups-13', A=('mset', ileaves(1, 'd'), 'dups'), B=('mset', ileaves(3, 'd'), 'dups'), weight=50, path_wall_s=6, replay_wall=6, region_job=True),
    dict(fam='mset-dups-s21', A=('mset', [('s', 2), ('s', 2)], 'dups'), B=('mset', [('s', 2)], 'dups'), weight=50, path_wall_s=6, replay_wall=6, region_job=True, alpha=2),
    dict(fam='mset-dups-s12', A=('mset', [('s', 2)], 'dups'), B=('mset', [('s', 2), ('s', 2)], 'dups'), weight=50, path_wall_s=6, replay_wall=6, region_job=True, alpha=2),
    dict(fam='mset-dups-L', A=('list', [('i', 1), ('mset', ileaves(3, 'd'), 'dups')]), B=('list', [('i', 1), ('mset', ileaves(2, 'd'), 'dups')]), weight=50, path_wall_s=6, replay_wall=6, region_job=True),
]


def matcher_collapse_region(w):
    """Narrow region of the listed finding 'multiset with equal members': the assignment matcher keys its tables by node,
    so the defect needs an element of multiplicity >= 2 among the *unmatched* members of one side while the other side has
    >= 2 unmatched members (only then can two equal nodes both be matched).  Flat multisets of scalars only; anything
    nested falls back to the broad predicate."""
    import collections
    A, Bn = w.get('A'), w.get('B')
    if not (builtins.isinstance(A, dict) and '__mset__' in A and builtins.isinstance(Bn, dict) and '__mset__' in Bn):
        return has_duplicate_members(w)
    a, b = A['__mset__'], Bn['__mset__']
    if any(builtins.isinstance(x, (dict, list)) for x in a + b):
        return has_duplicate_members(w)
    ca, cb = collections.Counter(map(repr, a)), collections.Counter(map(repr, b))
    rem, ins = ca - cb, cb - ca
    nr, ni = sum(rem.values()), sum(ins.values())
    return (max(rem.values(), default=0) >= 2 and ni >= 2) or (max(ins.values(), default=0) >= 2 and nr >= 2)


def has_duplicate_members(w):
    """region predicate of the listed finding 'multiset with equal members': some multiset in either document
    contains two equal members"""
    def walk_(o):
        if builtins.isinstance(o, dict):
            if '__mset__' in o:
                ms = o['__mset__']
                if any(ms[i] == ms[j] for i in range(len(ms)) for j in range(i + 1, len(ms))):
                    return True
                return any(walk_(c) for c in ms)
            if '__plist__' in o:
                return walk_(o['__plist__'])
            if '__dict__' in o:
                return any(walk_(k) or walk_(v) for k, v in o['__dict__'])
        if builtins.isinstance(o, list):
            return any(walk_(c) for c in o)
        return False
    return walk_(w.get('A')) or walk_(w.get('B'))

TREE_FUNCTIONS = ["graphtage.json.build_tree", "TreeNode.diff", "TreeNode.edits (ListNode, MultiSetNode, DictNode, FixedKeyDictNode, "
                  "KeyValuePairNode, LeafNode, StringNode, NullNode, PLISTNode)", "EditDistance.__init__/tighten_bounds/bounds/edits/"
                  "_best_match/_next_fringe/_cleanup", "FixedLengthSequenceEdit", "MultiSetEdit", "WeightedBipartiteMatcher",
                  "bounds.make_distinct", "bounds.repeat_until_tightened", "Range", "EditCollection", "FixedKeyDictNodeEdit",
                  "KeyValuePairEdit", "Match/Replace/Remove/Insert.on_diff", "CompoundEdit.on_diff", "EditedTreeNode.edited_cost",
                  "TreeNode.get_all_edits", "StringEdit / string_edit_distance (character leaves)",
                  "levenshtein_distance (as a summary computed from the real function on every run)"]
TREE_STUBS = ["numpy matrix in graphtage.levenshtein -> list matrix", "intervaltree in graphtage.bounds -> list model with "
              "nondeterministic tie order", "matching.min_weight_bipartite_matching -> contract stub (any optimal assignment; "
              "decided on the real function by C15)", "DEFAULT_PRINTER.tqdm -> null progress bar (quiet flag kept)",
              "isinstance/int/type/str/len shims for proxies in graphtage.{bounds,matching,search,edits,graphtage,sequences,multiset,"
              "levenshtein,json} (len only in graphtage.graphtage: length of the UTF-8 encoding of a symbolic str)"]
TREE_ASSUME = ["mapping keys are pairwise distinct inside one mapping (JSON/YAML loaders guarantee it)",
               "multisets with two equal members are excluded from the main jobs (listed finding KF-mset-duplicates) and explored by "
               "dedicated jobs", "leaf text: ints of 1-2 digits over an alphabet of 3 (thorough 4) digits, strings of 1-2 letters; "
               "longer text, floats, XML/dataclass nodes outside the claim",
               "replay uses the real numpy/scipy/intervaltree/levenshtein with progress bars suppressed"]
TREE_FILES = ['graphtage/levenshtein.py', 'graphtage/multiset.py', 'graphtage/sequences.py', 'graphtage/graphtage.py', 'graphtage/edits.py', 'graphtage/tree.py', 'graphtage/plist.py', 'graphtage/matching.py', 'graphtage/bounds.py', 'graphtage/json.py']


def tree_bounds_text(tier):
    if tier == 'quick':
        return ("lists n,m<=3 x 3 list modes; multisets n+m<=5; mappings n,m<=3 x {none, auto (n+m<=4), match (n+m<=4)}; 15 depth-2 "
                "nestings (list/dict of list/dict) x {auto,none} (+match for three) x list on/off (+same under auto); 13 cross-kind pairs (null/bool/str/"
                "int/list/dict/multiset); plist wrappers; leaf lengths mixed 1/2; value alphabet 3, key alphabet = number of keys "
                "of both mappings (every shared/unshared key pattern is realisable); every leaf value and key symbolic")
    return ("lists n,m<=4 (n+m<=6) x 3 list modes x 3 length patterns; multisets n+m<=6; mappings n,m<=3 x {none, auto (n+m<=5), match "
            "(n+m<=4)}; 19 depth-2/3 nestings (incl. 2x2 lists of 2-element lists) x {auto, none}; cross-kind pairs; plist wrappers; "
            "value alphabet 4; 6-key mappings under auto (~30k paths each) are not run")
