"""Symbolic leaf payloads.

``Pay`` mimics a Python ``str`` (kind 'str') or the decimal text of an ``int`` (kind 'int') of *concrete length*
whose characters are symbolic: indexing/iteration yields length-1 Pays, ``==`` is a z3 conjunction, ``<`` the order
of the modelled Python type, ``hash`` a constant (always consistent with ``==``; dict/Counter lookups then fall back
on ``__eq__``, which forks).  Real node classes (IntegerNode, StringNode) wrap Pays unchanged.
"""
import builtins

import z3

from .symx.core import Engine, SBool, SInt, Unsupported, explore, _wrapb, _wrapi, B
from .common import PATCHES

LETTERS = "abcdefghijklmnopqrstuvwxyz"


class Pay:
    __slots__ = ('cs', 'name', 'kind')

    def __init__(self, cs, name, kind='int'):
        self.cs = tuple(cs)
        self.name = name
        self.kind = kind

    def __len__(self):
        return len(self.cs)

    def __hash__(self):
        return 0

    def __getitem__(self, i):
        if builtins.isinstance(i, slice):
            return Pay(self.cs[i], f"{self.name}[{i.start}:{i.stop}]", 'str')
        return Pay((self.cs[i],), f"{self.name}[{i}]", 'str')

    def __iter__(self):
        for i in range(len(self.cs)):
            yield self[i]

    def __eq__(self, o):
        if not builtins.isinstance(o, Pay):
            # Python semantics against concrete scalars: True == 1, 1 == 1.0; "1" != 1
            if self.kind == 'int' and builtins.isinstance(o, (bool, int, float)) and not builtins.isinstance(o, Pay):
                if builtins.isinstance(o, float):
                    if o != builtins.int(o):
                        return False
                    o = builtins.int(o)
                if builtins.int(o) <= 0:
                    return False
                return self == Pay([ord(ch) for ch in builtins.str(builtins.int(o))], 'lit', 'int')
            if self.kind == 'str' and builtins.isinstance(o, builtins.str):
                return self == Pay([ord(ch) for ch in o], 'lit', 'str')
            return False
        if self.kind != o.kind:
            return False        # Python: 1 != "1"
        if len(self.cs) != len(o.cs):
            return False
        if self is o:
            return True
        return _wrapb(z3.And([_c(a) == _c(b) for a, b in zip(self.cs, o.cs)]))

    def __ne__(self, o):
        r = self.__eq__(o)
        if builtins.isinstance(r, SBool):
            return _wrapb(z3.Not(r.e))
        return not r

    def __lt__(self, o):
        if not builtins.isinstance(o, Pay):
            raise TypeError("'<' not supported between Pay and " + type(o).__name__)
        if self.kind != o.kind:
            raise TypeError("'<' not supported between instances of 'int' and 'str'")
        n, m = len(self.cs), len(o.cs)
        if self.kind == 'int' and n != m:
            return n < m            # no leading zeros: fewer digits <=> smaller
        e = z3.BoolVal(n < m)
        for a, b in reversed(list(zip(self.cs, o.cs))):
            e = z3.Or(_c(a) < _c(b), z3.And(_c(a) == _c(b), e))
        return _wrapb(e)

    def __gt__(self, o):
        return o.__lt__(self)

    def __le__(self, o):
        r = o.__lt__(self)
        return _wrapb(z3.Not(r.e)) if builtins.isinstance(r, SBool) else (not r)

    def __ge__(self, o):
        r = self.__lt__(o)
        return _wrapb(z3.Not(r.e)) if builtins.isinstance(r, SBool) else (not r)

    def __repr__(self):
        return f"Pay({self.name})"
    __str__ = __repr__

    def __format__(self, spec):
        return f"Pay({self.name})"

    def replace(self, *a):
        raise Unsupported("str method on symbolic payload")

    def encode(self, encoding='utf-8', errors='strict'):
        if self.kind != 'str' or builtins.str(encoding).lower().replace('_', '-') not in ('utf-8', 'utf8'):
            raise Unsupported("encode() of a symbolic payload other than str -> utf-8")
        return PayBytes(self)

    # ---- concretisation (characters are code points)
    def concrete(self, eng):
        vals = [eng.value(_c(c)) if not builtins.isinstance(c, int) else c for c in self.cs]
        text = ''.join(chr(v) for v in vals)
        if self.kind == 'int':
            return builtins.int(text)
        return text

    def pin(self, eng):
        """assume every character equal to its value in the current model (render-time pinning)"""
        for c in self.cs:
            if not builtins.isinstance(c, int):
                eng.assume(c == eng.value(c))


def _c(x):
    return z3.IntVal(x) if builtins.isinstance(x, int) else x


class PayBytes:
    """UTF-8 encoding of a symbolic str: only its length is modelled (1-4 bytes per code point, no surrogates in the domain)"""
    __slots__ = ('pay',)

    def __init__(self, pay):
        self.pay = pay

    def sym_len(self):
        tot = 0
        for c in self.pay.cs:
            if builtins.isinstance(c, int):
                tot = tot + builtins.len(chr(c).encode('utf-8'))
            else:
                tot = tot + z3.If(c < 0x80, 1, z3.If(c < 0x800, 2, z3.If(c < 0x10000, 3, 4)))
        if builtins.isinstance(tot, int):
            return tot
        return _wrapi(z3.simplify(tot))

    def __len__(self):
        raise Unsupported("len() of symbolic bytes outside a shimmed namespace")


def shim_len(o):
    if builtins.isinstance(o, PayBytes):
        return o.sym_len()
    return builtins.len(o)


WIDE_BASES = (96, 0xE0, 0x4E00)     # 'a'.., U+00E1.. (2 bytes in UTF-8), U+4E01.. (3 bytes)


def fresh_wide_pay(eng, name, length, alpha=3):
    """str payload whose characters range over three blocks of code points with UTF-8 widths 1, 2 and 3 (alpha characters
    each): every equality pattern x every width pattern is realisable"""
    cs = []
    for k in range(length):
        v = eng.fresh_int(f"{name}_{k}", 1, 3 * alpha).e
        cs.append(z3.If(v <= alpha, v + WIDE_BASES[0], z3.If(v <= 2 * alpha, v - alpha + WIDE_BASES[1], v - 2 * alpha + WIDE_BASES[2])))
    return Pay(cs, name, 'str')


def fresh_pay(eng, name, length, kind='int', alpha=3):
    """characters are code points: digits '1'..chr(48+alpha) for ints (no leading zero, so every model is the decimal
    text of a real int), letters 'a'..chr(96+alpha) for strings"""
    cs = []
    base = 48 if kind == 'int' else 96
    for k in range(length):
        v = eng.fresh_int(f"{name}_{k}", 1, alpha)
        cs.append(z3.simplify(v.e + base))
    return Pay(cs, name, kind)


def pay_of_text(text, kind='str'):
    return Pay([ord(ch) for ch in text], repr(text), kind)


# ---------------------------------------------------------------- summaries of the real levenshtein_distance
class Summaries:
    """(path condition -> result) pairs of the *real* graphtage.levenshtein.levenshtein_distance, explored by symx
    on placeholder characters per length shape and merged into one z3 If-tree.  Regenerated on every run."""

    def __init__(self):
        self.cache = {}
        self.paths = 0
        self.real = None

    def get(self, n, m):
        key = (n, m)
        if key in self.cache:
            return self.cache[key]
        import graphtage.levenshtein as lev
        real = self.real or lev.levenshtein_distance
        ps = [z3.Int(f"__p{i}") for i in range(n)]
        qs = [z3.Int(f"__q{j}") for j in range(m)]
        pairs = []

        def fn(eng):
            return real(Pay(ps, 'p', 'str'), Pay(qs, 'q', 'str'))

        def on_path(eng, res, aborted):
            if aborted:
                raise Unsupported("levenshtein summary: path aborted")
            if builtins.isinstance(res, SInt):
                r = res.e
            elif builtins.isinstance(res, int) and not builtins.isinstance(res, bool):
                r = z3.IntVal(res)
            else:
                raise Unsupported(f"levenshtein summary: unexpected result {type(res).__name__}")
            pairs.append((z3.And(*eng.pc) if eng.pc else z3.BoolVal(True), r))
        saved = Engine.cur
        try:
            st = explore(fn, on_path, budget_s=120)
        finally:
            Engine.cur = saved
        if not st['exhausted'] or st['unsupported']:
            raise Unsupported(f"levenshtein summary {key} not exhausted: {st.get('unsupported')}")
        self.paths += st['paths']
        expr = pairs[-1][1]
        for pc, r in reversed(pairs[:-1]):
            expr = z3.If(pc, r, expr)
        expr = z3.simplify(expr)
        self.cache[key] = (ps, qs, expr, len(pairs))
        return self.cache[key]

    def apply(self, s, t):
        ps, qs, expr, _ = self.get(len(s), len(t))
        sub = [(p, _c(c)) for p, c in zip(ps, s.cs)] + [(q, _c(c)) for q, c in zip(qs, t.cs)]
        return _wrapi(z3.substitute(expr, *sub)) if sub else _wrapi(expr)


SUMMARIES = Summaries()


def lev_dispatch(s, t):
    if builtins.isinstance(s, Pay) and builtins.isinstance(t, Pay):
        return SUMMARIES.apply(s, t)
    if builtins.isinstance(s, Pay) or builtins.isinstance(t, Pay):
        if builtins.isinstance(s, builtins.str):
            s = pay_of_text(s)
        if builtins.isinstance(t, builtins.str):
            t = pay_of_text(t)
        if not (builtins.isinstance(s, Pay) and builtins.isinstance(t, Pay)):
            raise Unsupported("levenshtein_distance between symbolic text and a non-string")
        return SUMMARIES.apply(s, t)
    return SUMMARIES.real(s, t)


def shim_str(o='', *a):
    if builtins.isinstance(o, Pay):
        return o if o.kind == 'str' else Pay(o.cs, o.name, 'str')
    if builtins.isinstance(o, (SInt, SBool)):
        raise Unsupported("str() of a symbolic number")
    return builtins.str(o, *a)


def json_isinstance(o, t):
    """isinstance shim for graphtage.json.build_tree: a Pay is an instance of the Python type it models."""
    if builtins.isinstance(o, Pay):
        ts = t if builtins.isinstance(t, tuple) else (t,)
        if o.kind == 'int':
            return int in ts
        return str in ts
    return builtins.isinstance(o, t)


def install_leaves():
    import graphtage.graphtage as gg
    import graphtage.json as gj
    import graphtage.levenshtein as lev
    SUMMARIES.real = lev.levenshtein_distance
    PATCHES.set(gg, 'levenshtein_distance', lev_dispatch)
    PATCHES.set(gg, 'str', shim_str)
    PATCHES.set(gg, 'len', shim_len)
    PATCHES.set(gj, 'isinstance', json_isinstance)
    PATCHES.install()
