#!/bin/bash
# usage: sweep_repo.sh <checkout> <props...>: runs the quick checks against another checkout of graphtage (VERIF_REPO)
R=$1; shift; cd /verif
for p in "$@"; do
  s=$(date +%s); VERIF_REPO=$R ./vf $p --tier ${TIER:-quick} > /tmp/sr_$p.out 2> /tmp/sr_$p.err; rc=$?; e=$(date +%s)
  echo "$(basename $R) $p exit=$rc wall=$((e-s))s $(grep -c VIOLATION /tmp/sr_$p.out) violations; $(grep '^\[' /tmp/sr_$p.err | tail -1 | cut -c1-160) $(grep '^INCONCL\|^violation' /tmp/sr_$p.err | head -2 | cut -c1-300 | tr '\n' ' ')"
done
