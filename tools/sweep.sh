#!/bin/bash
# runs the quick (or $TIER) command of the listed checks on the current /repo tree and prints exit code and wall time
cd /verif
for p in "$@"; do
  s=$(date +%s); ./vf $p --tier ${TIER:-quick} > /tmp/sweep_$p.out 2> /tmp/sweep_$p.err; rc=$?; e=$(date +%s)
  echo "$p exit=$rc wall=$((e-s))s $(grep -c VIOLATION /tmp/sweep_$p.out) violations; $(grep '^\[' /tmp/sweep_$p.err | tail -1 | cut -c1-200)"
done
