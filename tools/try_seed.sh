#!/bin/bash
# usage: try_seed.sh <seed-dir-name> <PROP> [extra vf args]
# Applies a seeded patch to a scratch worktree of /repo (outside /repo and /verif), runs the check against it through
# VERIF_REPO, removes the worktree.  /repo itself is never touched (set INPLACE=1 for the apply-to-/repo protocol).
S=/verif/seeded/$1; P=$2; shift 2
if [ "${INPLACE:-0}" = 1 ]; then
  cd /repo || exit 9
  [ -z "$(git status --porcelain -- graphtage)" ] || { echo "repo dirty"; exit 9; }
  git apply $S/patch.diff 2>/dev/null || patch -p1 -s --fuzz=3 --no-backup-if-mismatch < $S/patch.diff || { echo "patch does not apply"; git checkout HEAD -- .; exit 9; }
  cd /verif; ./vf $P --tier ${TIER:-quick} "$@" > /tmp/try_$P.$$.out 2> /tmp/try_$P.$$.err; rc=$?
  cd /repo && git checkout HEAD -- . && git clean -fdq -- graphtage
else
  W=/tmp/seedwt/$(basename $S)-$P-$$; mkdir -p /tmp/seedwt
  git -C /repo worktree add -q --detach $W HEAD || exit 9
  ( cd $W && { git apply $S/patch.diff 2>/dev/null || patch -p1 -s --fuzz=3 --no-backup-if-mismatch < $S/patch.diff; } ) || { echo "patch does not apply"; git -C /repo worktree remove --force $W; exit 9; }
  cd /verif; VERIF_REPO=$W ./vf $P --tier ${TIER:-quick} "$@" > /tmp/try_$P.$$.out 2> /tmp/try_$P.$$.err; rc=$?
  git -C /repo worktree remove --force $W
fi
echo "seed=$(basename $S) prop=$P exit=$rc"; grep -h "VIOLATION" /tmp/try_$P.$$.out | head -3; grep -h "^violation\|^\[\|^INCONCL" /tmp/try_$P.$$.err | head -5
rm -f /tmp/try_$P.$$.out /tmp/try_$P.$$.err
