#!/bin/bash
# usage: try_seed.sh <seed-dir-name> <PROP> [extra vf args]  -- applies a seeded patch to /repo, runs the check, restores /repo
S=/verif/seeded/$1; P=$2; shift 2
cd /repo || exit 9
[ -z "$(git status --porcelain -- graphtage)" ] || { echo "repo dirty"; exit 9; }
if ! git apply $S/patch.diff 2>/dev/null; then
  if ! patch -p1 -s --fuzz=3 --no-backup-if-mismatch < $S/patch.diff; then
    echo "patch does not apply"; git checkout HEAD -- . ; git clean -fdq -- graphtage; exit 9
  fi
fi
cd /verif; ./vf $P --tier ${TIER:-quick} "$@" > /tmp/try_$P.out 2> /tmp/try_$P.err; rc=$?
cd /repo && git checkout HEAD -- . && git clean -fdq -- graphtage
echo "seed=$(basename $S) prop=$P exit=$rc"; grep -h "VIOLATION\|KNOWN" /tmp/try_$P.out | head -5; grep -h "^violation\|^\[" /tmp/try_$P.err | head -6
