#!/usr/bin/env python3
"""Prints the prompt given to a seeding sub-agent for one property (property text only; nothing from /verif)."""
import json, sys
pid, wt = sys.argv[1], sys.argv[2]
for l in open('/verif/properties.jsonl'):
    p = json.loads(l)
    if p['id'] == pid:
        break
print(f"""You are helping to evaluate a test/verification suite by writing a realistic *bug injection* for the open-source Python project trailofbits/graphtage (a semantic diff tool for JSON/YAML/XML/CSV/plist trees).

A scratch git worktree of the repository is at {wt} . Work ONLY inside that directory (never touch /repo or /verif, do not read anything under /verif). Run Python as `cd {wt} && /venv/bin/python ...` -- from that directory `import graphtage` resolves to the worktree copy (check with `/venv/bin/python -c "import graphtage; print(graphtage.__file__)"`). There is no network.

The property that must be BROKEN by your change:

  Title: {p['title']}
  Statement: {p['statement']}
  Quantified over: {p['quantifier']['text']}
  Relevant source files: {', '.join(p['anchors']['files'])}

Task: make a small, realistic source change under {wt}/graphtage/ (the kind of slip a maintainer could make in a refactoring or optimisation: off-by-one, wrong operand, dropped branch, stale cache, wrong tie-break, swapped arguments, missing re-check, two cooperating sites that each look fine alone) such that
  1. the package still imports and the existing test suite still passes:  `cd {wt} && /venv/bin/python -m pytest -q -p no:cacheprovider --timeout=900 -x`  (takes about 3 minutes; all 66 tests must pass; some tests are randomised, so run it and make sure it is green);
  2. the property above is violated for SOME inputs -- but NOT in a way that ordinary use would expose at once. The change must need something specific to manifest: an unusual input shape (ties, duplicates, particular size relations, nesting, a non-default option), a multi-step sequence of API calls, a particular order of operations, etc. Changes that break every run, or that are visible on the README examples, are not wanted. Prefer inputs that are small (containers of 2-4 elements, short scalars, short operation sequences) so the demonstration stays small.
  3. you provide a demonstration: a small standalone script {wt}/demo_{pid}.py (plain Python, using only the graphtage public API, exit code 1 and a short message when the property is violated, exit code 0 when it holds) that FAILS (exit 1) with your change and PASSES (exit 0) on the original code. Note the original code is not perfect either; pick a violation that the original code does not have. Verify both: run it with your change, then `git diff > /tmp/{pid}.diff; git checkout -- graphtage`, run it again on the original, then restore your change with `git apply /tmp/{pid}.diff`.

Deliver exactly these files in {wt}:  your modified sources (uncommitted, so that `git -C {wt} diff` shows the patch), demo_{pid}.py, and NOTES_{pid}.md (3-10 lines: what you changed, which inputs/sequence make it manifest, why the test suite does not notice). Do not commit. Prefer a change in the core logic files listed above over changes to printing or CLI unless the property is about those. Before finishing, double-check: tests green WITH the change, demo exits 1 WITH the change and 0 WITHOUT it. In your final answer, report the diff and the results of those three runs.""")
