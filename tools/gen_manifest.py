#!/usr/bin/env python3
"""Regenerates /verif/MANIFEST.json from the tables below (run by hand after adding a check)."""
import json
import os

ROOT = os.path.dirname(os.path.dirname(os.path.abspath(__file__)))

TB = ("Trusted: z3 5.1 (z3-solver wheel), CPython 3.12 dunder protocol for the proxies, the symx engine "
      "(cross-checked concretely each run), the stubs listed in the evidence file with their per-run conformance "
      "checks; every reported violation is replayed on the un-stubbed real code before it is printed. ")

CHECKS = {
    "C16": dict(
        text="Bounded symbolic execution of the real FibonacciHeap/MaxFibonacciHeap: every operation script up to the "
             "stated length (plus deep scripts behind a concrete build-up phase, plus seeded long scripts) is executed with "
             "symbolic integer keys; z3 decides every key comparison, so all key orders incl. ties are covered inside "
             "the bound; the oracle (len == live count, peek/pop return a live item with a best key) is an assertion whose "
             "negation z3 must find infeasible on every path.",
        note=TB + "Assumes documented preconditions of decrease_key/remove. Scripts longer than the bound are outside the claim.",
        ref="DESIGN.md §3 C16", technique="symbolic execution (z3 proxies) of the real heap, exhaustive path exploration within bounds"),
}

for _pid, _t in [("C01", "edit script accounting (every child exactly once, list order, diff-tree annotations)"),
                  ("C03", "cost = sum of parts in the diff tree, the flat edit list and the refined top-level edit"),
                  ("C04", "monotone, sound, converging bounds (passive and active monitor around every Bounded class)"),
                  ("C02", "total cost == 0 <=> documents equal as data <=> main()'s exit-status expression (AST slice) is False <=> nothing marked; "
                          "plus z3 validity queries `summary of the real levenshtein_distance == textbook DP` and `== 0 <=> equal` per length shape; "
                          "CrossHair re-checks the kernel as an independent second engine (symbolic str, length <= 3)"),
                  ("C05", "2-safety by self-composition over call histories: the same symbolic documents are refined by the TreeNode.diff loop and by "
                          "every bounded prefix of public edit operations (on the top-level or a nested edit) followed by that loop, quiet on/off: no "
                          "exception, equal final cost, equal script"),
                  ("C06", "the real JSONFormatter + colour Printer render every script reachable in the bound (leaf values symbolic during the diff, "
                          "pinned to the path's model for json.dumps); deleting what is marked inserted (under-plus / green) parses to document 1, "
                          "deleting what is marked removed (strike / red) parses to document 2, and marks exist iff the documents differ"),
                  ("C13", "on every path of the diff (leaf values symbolic) the three output branches of main() are executed with all 8 formatters x "
                          "3 modes, printers and condensed rotating: no exception escapes; XML and pydiff inputs as concrete jobs"),
                  ("C07", "no input mutation (structural snapshots before/after diff, edits, get_all_edits) and determinism as 2-safety: the same "
                          "symbolic documents diffed twice in one run while every set() in graphtage.graphtage iterates in an engine-chosen order "
                          "(models the hash seed): equal cost and equal ordered script"),
                  ("C08", "2-safety by self-composition: the same symbolic documents are diffed before and after permuting the keys of one mapping "
                          "(generators of the permutation group, engine-chosen site) -- equal cost, equal pairing, permuted copy costs 0; list "
                          "transpositions of unequal elements cost > 0"),
                  ("C09", "the four real Filetype.build_tree implementations (json, json5, yaml, plist) fed by loader stubs returning the same "
                          "symbolic value: cost(f1(A), f2(B)) equals the json/json baseline for all 15 other ordered format pairs and the same "
                          "data in two formats costs 0 / exits 0; parser agreement itself (C code) is assumed"),
                  ("C10", "'none' never pairs different keys, 'auto' pairs every shared key with itself, list modes give strictly positional "
                          "pairs plus one surplus tail; BuildOptions -> node flags read back from the built trees")]:
    CHECKS[_pid] = dict(
        text="Bounded symbolic execution of the real diff engine on two documents built by the real json.build_tree whose leaf "
             "values are all symbolic (z3 decides every equality pattern, size relation, pairwise cost and through them every "
             "alignment/assignment the engine can choose) for every container shape, option combination and nesting in the stated "
             "bound; oracle: " + _t + "; every failing path is replayed on the un-stubbed code before it is reported.",
        note=TB + "Environment stubs (numpy matrix, interval tree, scipy assignment as a contract, progress bar) are listed in the "
             "evidence file; documents beyond the stated shapes, text longer than 2 characters, floats and XML are outside the claim.",
        ref="DESIGN.md §2, §3 " + _pid, technique="symbolic execution (z3 proxies) of the real diff engine, exhaustive path exploration within bounds")

CHECKS["C17"] = dict(
    text="Bounded symbolic execution of the real IterativeTighteningSearch, BoundedComparator/sort/min_bounded and make_distinct "
         "on synthetic Bounded items whose tightening schedules are chains of nested intervals with *symbolic integer end points*: "
         "z3 covers every value (ties, identical/touching intervals, already-definitive items, one-sided slow convergence) for "
         "every schedule-length vector in the bound; oracles: minimum returned, final bound equals it, sorted order, pairwise "
         "separation, termination, plus C04's monitor rules on the search object.",
    note=TB + "Items are assumed to tighten soundly (the property's own precondition). intervaltree is replaced by a list model "
         "with nondeterministic tie order, validated against the real package each run.",
    ref="DESIGN.md §3 C17", technique="symbolic execution (z3 proxies) of the real search/bounds code, exhaustive path exploration within bounds")

CHECKS["C15"] = dict(
    text="Bounded symbolic execution of the real min_weight_bipartite_matching and get_dtype: every integer weight is a symbolic "
         "value over the documented range (split into non-negative and signed domains), booleans are symbolic bits, the "
         "missing-pair pattern is enumerated per job; numpy's array conversion and scipy's solver are replaced by their contracts "
         "(identity-or-OverflowError; any optimal assignment of the matrix actually passed). Oracle: one-to-one, only existing "
         "pairs, true weights, no exception, maximum cardinality and minimum total on complete tables (all alternatives expanded); "
         "get_dtype: returned dtype contains [lo,hi] for ALL integers in range (a z3 validity query over the integers, no size bound).",
    note=TB + "Float tables are outside the check. The regions of the three listed findings (int64 fallback, sentinel overflow) "
         "are excluded from the main jobs by the per-weight ranges and explored by dedicated region jobs.",
    ref="DESIGN.md §3 C15", technique="symbolic execution (z3 proxies) of the real assignment routine with solver contract stub, exhaustive path exploration within bounds")

CHECKS["C11"] = dict(
    text="Bounded symbolic execution of the real StringNode.edits -> StringEdit -> string_edit_distance -> EditDistance "
         "(penalty 0) with EVERY character of both strings symbolic over an alphabet as large as the total length, so z3 ranges "
         "over every equality pattern and the verdict covers all strings of the stated lengths over any alphabet; oracle: the "
         "script spells both strings in order and the number of kept characters equals the LCS length, where the LCS is a z3 "
         "If-DP over the same symbolic characters (reference model, itself cross-checked against brute force each run).",
    note=TB + "Strings longer than the bound and bytes objects are outside the claim.",
    ref="DESIGN.md §3 C11", technique="symbolic execution (z3 proxies) of the real string edit distance against a z3 LCS reference, exhaustive within length bounds")

CHECKS["C14"] = dict(
    text="The statements of main() that resolve the file types, the dictionary strategy, the BuildOptions and the printer layout "
         "options are sliced from the AST of graphtage/__main__.py on every run (one contiguous region plus the argparse "
         "construction, which is executed to obtain the real parser) and run under symx with every boolean flag a symbolic bool "
         "and every option presence/MIME choice an engine choice point: explicit type of either file is the one resolved, -k == "
         "--dict-strategy none, -j == -jl -jd, BuildOptions fields follow the flags; alias pairs parse identically on the real "
         "parser; get_filetype ignores the path when a MIME type is given.",
    note=TB + "Reduced claim: equality of the text printed by the command and by the library is outside (needs files and stdout). "
         "The option space is finite; the solver's share is the boolean flags, presence is enumerated by the engine.",
    ref="DESIGN.md §3 C14", technique="symbolic execution of AST slices of main() (z3 booleans + engine choice points), exhaustive over the option space")

NOT_APPLICABLE = {
    "C12": "every route from leaf text to output and every oracle (loaders) is C code (json.dumps, csv, libyaml, plistlib, "
           "html.escape) behind which a symbolic engine must realise the input; nothing symbolic is left to decide (DESIGN §3 C12)",
    "C18": "input space is pointer-structured object graphs (identity, sharing, cycles) consumed through MRO dispatch and "
           "`is` tests; heap shape cannot be made symbolic by either engine, scalars are never branched on (DESIGN §3 C18)",
    "C19": "quantifier is over expression programs; a symbolic string is realised character-by-character in the tokenizer and "
           "reachability is decided inside C-implemented callables (str.format etc.) (DESIGN §3 C19)",
    "C20": "fault space is byte-level corruption consumed by C parsers (json scanner, libyaml, expat) and file decoding; which "
           "exception escapes is decided inside them; only concrete fault enumeration (another technique) can decide it (DESIGN §3 C20)",
}

PENDING = {}   # id -> reason while a check is not built yet (none left)


def main():
    checks = []
    for pid in sorted(CHECKS):
        c = CHECKS[pid]
        checks.append(dict(
            property_id=pid,
            quick_cmd=f"./vf {pid} --tier quick",
            thorough_cmd=f"./vf {pid} --tier thorough",
            evidence_file=f"/verif/evidence/{pid}.json",
            replay_cmd_template=f"./vf {pid} --replay {{path}}",
            engine="symx",
            level_claimed=dict(category="model_checking", text=c['text'], design_ref=c['ref']),
            level_note=c['note'],
            technique=c['technique'],
        ))
    na = [dict(property_id=k, reason=v) for k, v in sorted({**NOT_APPLICABLE, **PENDING}.items()) if k not in CHECKS]
    man = dict(
        version=1,
        setup_cmd="./vf --setup",
        hooks=dict(guard="GRAPHTAGE_VERIF", enable="none needed: all stubs/shims are installed by the harness in module "
                   "namespaces at import time; no file under /repo carries instrumentation",
                   baseline_off_cmd="cd /repo && /venv/bin/python -m pytest -ra -q -p no:cacheprovider --timeout=900 "
                                    "--continue-on-collection-errors",
                   source_commits=[], add_only=True),
        engines=[dict(name="symx", path="/verif/verif/symx", serves_properties=sorted(CHECKS),
                      kind_free_text="z3-proxy symbolic execution of the real Python code, DFS by re-execution, "
                                     "incremental solver; exhaustive within stated bounds"),
                 dict(name="crosshair", path="/verif/.venv (crosshair-tool 0.0.110)", serves_properties=["C02"],
                      kind_free_text="second engine on the string kernel (levenshtein_distance)")],
        checks=checks,
        not_applicable=na,
        notes="All checks: exit 0 = exhausted inside the bound with nothing unlisted found; exit 1 = VIOLATION replayed on real "
              "code; exit 2 = inconclusive (budget, unknown, unsupported operation, stub conformance failure).",
    )
    with open(os.path.join(ROOT, "MANIFEST.json"), "w") as f:
        json.dump(man, f, indent=1)
    print("wrote MANIFEST.json with", len(checks), "checks,", len(na), "not applicable")


if __name__ == '__main__':
    main()
