#!/bin/bash
# runs every seeded change against the checks of the properties it breaks; prints one line per (seed, property)
cd /verif
pairs="C01:C01 C02:C02 C03:C03 C04:C04 C05:C05 C06:C06 C07:C07 C08:C08 C09:C09 C10:C10 C11:C11 C13:C13 C14:C14 C15:C15 C16:C16 C17:C17
revert-D1-fixedlength-slice:C01 revert-D1-fixedlength-slice:C10 revert-D1-fixedlength-slice:C03 revert-D2-lev-empty-target:C02 revert-D3-leaf-type-equality:C02
revert-D5-last-cell-not-tightened:C03 revert-D6-tighten-after-cleanup:C05 revert-D6-tighten-after-cleanup:C04 revert-D7-set-order:C07 revert-D10-to-mime:C14
revert-D13-multiset-largest-removals:C03 revert-D13-multiset-largest-removals:C04 revert-D14-mwbm-negative-sentinel:C15 revert-D15-mwbm-no-edges:C15 revert-D16-zero-size-leaf-free:C02"
for pr in ${1:-$pairs}; do
  s=${pr%%:*}; p=${pr##*:}
  out=$(tools/try_seed.sh $s $p 2>&1 | head -3 | tr '\n' ' ' | cut -c1-260)
  echo "$out"
done
