#!/bin/bash
# usage: collect_seed.sh <PROP> <worktree> [name]   -- confirms a seeded change and stores it under /verif/seeded/<name>/
set -u
P=$1; WT=$2; NAME=${3:-$P}
OUT=/verif/seeded/$NAME; mkdir -p $OUT
cd $WT || exit 1
git diff -- graphtage > $OUT/patch.diff
[ -s $OUT/patch.diff ] || { echo "empty patch"; exit 1; }
cp demo_$P.py $OUT/demo.py 2>/dev/null; cp NOTES_$P.md $OUT/NOTES.md 2>/dev/null
/venv/bin/python demo_$P.py > $OUT/demo_with.log 2>&1; W=$?
git stash -q -- graphtage
/venv/bin/python demo_$P.py > $OUT/demo_without.log 2>&1; WO=$?
git stash pop -q
T=skipped
if [ "${SKIPTESTS:-0}" != 1 ]; then
  timeout 1200 /venv/bin/python -m pytest -q -p no:cacheprovider --timeout=300 -x > $OUT/tests.log 2>&1; T=$?
fi
BASE=$(git rev-parse HEAD)
python3 - <<PY
import json
json.dump(dict(property="$P", base_commit="$BASE", demo_exit_with_change=$W, demo_exit_without_change=$WO,
  test_suite_exit_with_change="$T", needs=open("$OUT/NOTES.md").read()[:1500] if __import__('os').path.exists("$OUT/NOTES.md") else "",
  ran=["demo with change", "demo without change (git stash)", "pytest -q -x with change"]), open("$OUT/meta.json","w"), indent=1)
PY
echo "$NAME: demo with=$W without=$WO tests=$T"
